#!/bin/bash
# Runs every registered check of the given tier (default quick) and prints a summary line per property.
tier=${1:-quick}
shift
ids=${@:-C01 C02 C03 C04 C05 C06 C07 C08 C09 C10 C11 C12 C13 C14 C15 C16 C17 C18 C19}
mkdir -p /verif/build/logs
for id in $ids; do
  start=$(date +%s)
  /verif/bin/gosym check $id --tier $tier > /verif/build/logs/$id.$tier.log 2>&1
  rc=$?
  echo "$id tier=$tier exit=$rc $(( $(date +%s) - start ))s  $(tail -1 /verif/build/logs/$id.$tier.log | cut -c1-160)"
done
