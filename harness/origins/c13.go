package origins

import (
	"github.com/jub0bs/cors/cfgerrors"
)

// C13 — origin-pattern grammar. The module's own parsing logic is checked for
// all byte strings (harness S, with IDNA/netip stubbed), every length maximum
// is checked on concrete fillers (harness L, native IDNA), and the documented
// examples are run as they stand (harness D).

func zzLower(c byte) bool { return 'a' <= c && c <= 'z' }
func zzDigit(c byte) bool { return '0' <= c && c <= '9' }
func zzLabelByte(c byte) bool {
	return zzLower(c) || zzDigit(c) || c == '-'
}

// zzRefSyntax is the documented syntax, independent of IDNA/IP semantics.
// judged=false marks the grey zones the property declines to judge.
func zzRefSyntax(s string) (ok, judged bool) {
	if s == "*" || s == "null" {
		return false, true
	}
	for i := 0; i < len(s); i++ {
		if s[i] == '_' {
			return false, false // `_` in schemes or labels: not judged
		}
	}
	// scheme
	if len(s) == 0 || !zzLower(s[0]) {
		return false, true
	}
	i := 1
	for i < len(s) && (zzLower(s[i]) || zzDigit(s[i]) || s[i] == '+' || s[i] == '-' || s[i] == '.') {
		i++
	}
	scheme := s[:i]
	if len(scheme) > 64 {
		return false, false // over-long schemes: how the excess is rejected is not specified per byte
	}
	if scheme == "file" {
		return false, true
	}
	if len(s) < i+3 || s[i:i+3] != "://" {
		return false, true
	}
	rest := s[i+3:]
	wildcard := false
	if len(rest) >= 2 && rest[0] == '*' && rest[1] == '.' {
		wildcard = true
		rest = rest[2:]
	}
	// host
	isIP := false
	if len(rest) > 0 && rest[0] == '[' {
		k := -1
		for j := 1; j < len(rest); j++ {
			if rest[j] == ']' {
				k = j
				break
			}
		}
		if k < 0 {
			return false, true
		}
		if k < 3 {
			return false, false // shorter than any IPv6 literal: rejected, but the route is not specified
		}
		isIP = true
		rest = rest[k+1:]
	} else {
		j := 0
		lastLabelStart := 0
		for j < len(rest) && (zzLabelByte(rest[j]) || rest[j] == '.') {
			if rest[j] == '.' {
				if j == 0 || rest[j-1] == '.' {
					return false, true // empty label (leading dot, or two dots)
				}
				if j+1 < len(rest) && (zzLabelByte(rest[j+1])) {
					lastLabelStart = j + 1
				}
			}
			j++
		}
		if j == 0 {
			return false, true
		}
		isIP = zzDigit(rest[lastLabelStart])
		rest = rest[j:]
	}
	if wildcard && isIP {
		return false, true
	}
	if isIP && scheme == "https" {
		return false, false // https with an IP host: not judged
	}
	// port
	if len(rest) == 0 {
		return true, true
	}
	if rest[0] != ':' {
		return false, true
	}
	p := rest[1:]
	if p == "*" {
		return true, true
	}
	if len(p) == 0 || len(p) > 5 || p[0] == '0' {
		return false, true
	}
	v := 0
	for j := 0; j < len(p); j++ {
		if !zzDigit(p[j]) {
			return false, true
		}
		v = v*10 + int(p[j]-'0')
	}
	if v > 65535 {
		return false, true
	}
	if (scheme == "http" && v == 80) || (scheme == "https" && v == 443) {
		return false, true
	}
	return true, true
}

func zzCheckError(err error, s string) {
	e, isT := err.(*cfgerrors.UnacceptableOriginPatternError)
	zzAssert(isT && e != nil, "rejection is not an *UnacceptableOriginPatternError")
	if isT && e != nil {
		zzAssert(e.Value == s, "UnacceptableOriginPatternError does not name the pattern as supplied")
		zzAssert(e.Reason == "invalid" || e.Reason == "prohibited", "UnacceptableOriginPatternError with an undocumented reason")
	}
}

// zzH_C13_S: all byte strings up to the bound. Stub mode 1 (IDNA/netip answer
// arbitrarily): acceptance implies the documented syntax. Stub mode 2 (IDNA/
// netip raise no objection): the documented syntax implies acceptance.
func zzH_C13_S() {
	n := 12
	if zzTier() >= 1 {
		n = 14
	}
	mode := zzChoose(2) + 1
	zzStubs(mode)
	s := zzString(n)
	p, err := ParsePattern(s)
	ok, judged := zzRefSyntax(s)
	if err != nil {
		zzCheckError(err, s)
		if mode == 2 && judged {
			zzAssert(!ok, "a pattern of the documented form is rejected although its host raises no objection")
		}
		zzReach("rejected")
		return
	}
	zzReach("accepted")
	if judged {
		zzAssert(ok, "a string outside the documented syntax is accepted as an origin pattern")
	}
	zzAssert(len(p.Scheme) > 0 && len(p.Scheme) <= 64, "accepted pattern with an empty or over-long scheme")
	zzAssert(p.Port == 0 || (1 <= p.Port && p.Port <= 65535) || p.Port == 65536, "accepted pattern with an out-of-range port")
	if p.Kind == PatternKindSubdomains {
		zzAssert(len(p.Value) >= 3 && p.Value[0] == '*' && p.Value[1] == '.', "subdomain pattern without its wildcard")
		zzReach("wildcard")
	}
}

func zzRepeat(c byte, n int) string {
	b := make([]byte, n)
	for i := range b {
		b[i] = c
	}
	return string(b)
}

// zzHostOfLen builds a domain of exactly n bytes from labels of at most 63 bytes.
func zzHostOfLen(n int) string {
	s := ""
	for n > 0 {
		k := n
		if k > 63 {
			k = 63
			if n-k == 1 { // do not leave a lone dot
				k = 62
			}
		}
		if s != "" {
			s += "."
			n--
			if k > n {
				k = n
			}
		}
		s += zzRepeat('a', k)
		n -= k
	}
	return s
}

// zzH_C13_L: every documented length maximum, on concrete fillers with the
// real IDNA profile, plus the self-match of accepted wildcard-free patterns.
func zzH_C13_L() {
	schemeLens := []int{1, 63, 64, 65, 66}
	hostLens := []int{1, 63, 250, 251, 252, 253, 254, 255}
	sl := schemeLens[zzChoose(len(schemeLens))]
	hl := hostLens[zzChoose(len(hostLens))]
	dot := zzChoose(2) == 1
	wild := zzChoose(2) == 1
	longLabel := zzChoose(3) // 0: labels <= 63; 1: one label of 64; 2: one label of 63 exactly in front
	ports := []string{"", ":1", ":65535", ":65536", ":*", ":8080"}
	port := ports[zzChoose(len(ports))]

	scheme := "z" + zzRepeat('y', sl-1)
	host := zzHostOfLen(hl)
	if longLabel == 1 && hl >= 66 {
		host = zzRepeat('b', 64) + "." + zzHostOfLen(hl-65)
	}
	if longLabel == 2 && hl >= 65 {
		host = zzRepeat('b', 63) + "." + zzHostOfLen(hl-64)
	}
	zzAssume(len(host) == hl)
	raw := scheme + "://"
	if wild {
		raw += "*."
	}
	raw += host
	if dot {
		raw += "."
	}
	raw += port
	p, err := ParsePattern(raw)
	tooLong := sl > 64 || hl > 253 || (longLabel == 1 && hl >= 66) || port == ":65536"
	if wild && hl >= 252 {
		tooLong = true
	}
	grey := wild && hl == 251 && dot // 251-byte base plus trailing dot: between the two documented limits
	if !grey {
		zzAssert((err != nil) == tooLong, "acceptance disagrees with the documented length limits (scheme 64, label 63, domain 253, wildcard base 251)")
	}
	if err != nil {
		zzCheckError(err, raw)
		zzReach("rejected")
		return
	}
	zzReach("accepted")
	if sl == 64 && hl == 253 && dot && port == ":65535" {
		zzReach("all-maxima")
	}
	if wild || port == ":*" {
		return
	}
	// an accepted wildcard-free pattern, presented verbatim as an Origin, is allowed by it
	var t Tree
	t.Insert(&p)
	o, okParse := Parse(raw)
	zzAssert(okParse, "an accepted wildcard-free pattern is not a valid Origin")
	if okParse {
		zzAssert(t.Contains(&o), "an accepted wildcard-free pattern does not match itself")
		zzReach("self-match")
	}
}

type zzDoc struct {
	raw string
	ok  bool
}

var zzDocExamples = []zzDoc{
	{"http://example.com", true}, {"https://example.com", true}, {"connector://localhost", true}, {"file:///somepath", false},
	{"https://www.xn--xample-9ua.com", true}, {"https://www.résumé.com", false}, {"null", false},
	{"http://255.0.0.0", true}, {"http://0xFF000000", false},
	{"http://[::1]:9090", true}, {"http://[0:0:0:0:0:0:0:0001]:9090", false}, {"http://[0000:0000:0000:0000:0000:0000:0000:0001]:9090", false},
	{"https://example.com:1", true}, {"https://example.com:65535", true}, {"https://example.com:0", false}, {"https://example.com:65536", false},
	{"http://example.com:80", false}, {"https://example.com:443", false}, {"https://*.example.com:*", true}, {"https://*.example.com", true},
	// documented defects, one per atom
	{"https://Example.com", false}, {"https://user@example.com", false}, {"https://example.com/", false}, {"https://example.com?q", false},
	{"https://example.com#f", false}, {" https://example.com", false}, {"https://example.com ", false}, {"https://example.com:", false},
	{"https://example.com:01", false}, {"https://example.com:123456", false}, {"http://[::1%eth0]", false}, {"http://[::ffff:1.2.3.4]", false},
	{"https://*example.com", false}, {"https://foo.*.com", false}, {"https://example.com:*0", false}, {"http://*.127.0.0.1", false},
	{"http://*.[::1]", false}, {"https://ex ample.com", false}, {"http://1.2.3.4.", false}, {"http://256.1.1.1", false},
	{"http://example.com.", true}, {"http://127.0.0.1:90", true}, {"*", false}, {"https://**.example.com", false},
}

// zzH_C13_D: the documented examples and one atom per documented defect,
// through the real parser, IDNA profile and netip (concrete).
func zzH_C13_D() {
	d := zzDocExamples[zzChoose(len(zzDocExamples))]
	_, err := ParsePattern(d.raw)
	zzAssert((err == nil) == d.ok, "a documented example is not handled as documented")
	if err != nil {
		zzCheckError(err, d.raw)
		zzReach("rejected")
	} else {
		zzReach("accepted")
	}
}
