package origins

// zzH_C17_parse: Parse and Tree.Contains on arbitrary bytes, and the length cap
// for every length up to 1 MiB (the bytes of a long value are never read).
func zzH_C17_parse() {
	var t Tree
	for _, raw := range []string{"https://a.b", "https://*.a.b:*", "http://[::1]:9090", "https://xa.b"} {
		p, err := ParsePattern(raw)
		zzAssert(err == nil, "valid pattern rejected")
		t.Insert(&p)
	}
	var s string
	if zzChoose(2) == 0 {
		n := 14
		if zzTier() >= 1 {
			n = 17
		}
		s = zzString(n)
	} else {
		s = zzString(1 << 20)
		zzAssume(len(s) > 327)
		zzReach("long")
	}
	o, ok := Parse(s)
	if ok {
		_ = t.Contains(&o)
		zzAssert(len(s) <= 327, "Parse accepted a value longer than any origin")
		zzReach("parsed")
	}
	var empty Tree
	_ = empty.Contains(&o)
	_ = empty.IsEmpty()
	_ = empty.Elems()
}
