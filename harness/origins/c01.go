package origins

// C01, unit level — Tree.Insert / Tree.Contains against the documented
// denotation for *symbolic* patterns: hosts, `*.` prefixes and ports of up to
// three patterns are solver variables, so is the origin. The shape of the
// radix tree that Insert builds (which node is split, which pattern subsumes
// which, where a wildcard entry sits relative to longer and shorter hosts) is
// then determined by the path condition: every shape reachable within the
// length bounds is explored, not a menu of them.

var zzC01Schemes = []string{"z", "zz", "y"}

// zzValidHost: what ParsePattern / Parse guarantee about a host that reaches
// the tree: non-empty, over label bytes and dots, no empty label except that a
// trailing dot is tolerated. The alphabet is cut down to {a, b, .}: the tree
// only ever compares bytes for equality and order.
func zzValidHost(h string) bool {
	if len(h) == 0 || h[0] == '.' {
		return false
	}
	for i := 0; i < len(h); i++ {
		c := h[i]
		if c == '.' {
			if h[i-1] == '.' {
				return false
			}
			continue
		}
		if c != 'a' && c != 'b' {
			return false
		}
	}
	return true
}

type zzTreePat struct {
	p    Pattern
	subs bool
	base string // host without the leading "*."
	dotb string // "." + base for subs patterns
}

// zzDrawPattern draws one pattern value as ParsePattern would produce it.
// rich: three schemes and a symbolic port; otherwise two schemes and a port
// from {absent, 81, wildcard}.
func zzDrawPattern(maxHost int, rich bool) zzTreePat {
	var tp zzTreePat
	ns := 2
	if rich {
		ns = 3
	}
	tp.p.Scheme = zzC01Schemes[zzChoose(ns)]
	v := zzString(maxHost + 2)
	if zzBool() {
		zzAssume(len(v) >= 3 && v[0] == '*' && v[1] == '.')
		tp.subs = true
		tp.base = v[2:]
		tp.dotb = v[1:]
		tp.p.Kind = PatternKindSubdomains
	} else {
		zzAssume(len(v) <= maxHost)
		tp.base = v
	}
	zzAssume(zzValidHost(tp.base))
	tp.p.HostPattern.Value = v
	switch zzChoose(3) {
	case 0:
		tp.p.Port = 0
	case 1:
		tp.p.Port = wildcardPort
	default:
		tp.p.Port = 81
		if rich {
			port := zzInt()
			zzAssume(1 <= port && port <= 65535)
			tp.p.Port = port
		}
	}
	return tp
}

// zzTreeDenotes: C01's statement, literally.
func zzTreeDenotes(tp *zzTreePat, scheme, host string, port int) bool {
	if tp.p.Scheme != scheme {
		return false
	}
	if tp.p.Port != wildcardPort && tp.p.Port != port {
		return false
	}
	if !tp.subs {
		return host == tp.base
	}
	// host ends in "."+base with at least one more non-empty label in front
	n := len(tp.dotb)
	return len(host) > n && host[len(host)-n:] == tp.dotb
}

func zzH_C01_tree1() { zzC01Tree(1) }
func zzH_C01_tree2() { zzC01Tree(2) }
func zzH_C01_tree3() { zzC01Tree(3) }

// zzC01Tree: k patterns. Bounds shrink as k grows (the product of the
// patterns' shapes is what costs): k=1,2 rich (3 schemes, symbolic ports);
// k=3 two schemes, ports from {absent, 81, *}.
func zzC01Tree(k int) {
	thorough := zzTier() >= 1
	maxPat, maxHost, rich := 4, 6, true
	switch k {
	case 2:
		maxPat, maxHost = 3, 5
		if thorough {
			maxPat, maxHost = 4, 6
		}
	case 3:
		maxPat, maxHost, rich = 3, 4, false
		if thorough {
			maxPat, maxHost = 3, 5
		}
	}
	pats := make([]zzTreePat, k)
	var t Tree
	for i := range pats {
		pats[i] = zzDrawPattern(maxPat, rich)
		t.Insert(&pats[i].p)
	}
	var o Origin
	ns := 2
	if rich {
		ns = 3
	}
	o.Scheme = zzC01Schemes[zzChoose(ns)]
	o.Host.Value = zzString(maxHost)
	zzAssume(zzValidHost(o.Host.Value))
	if zzBool() {
		o.Port = 81
		if rich {
			port := zzInt()
			zzAssume(1 <= port && port <= 65535)
			o.Port = port
		} else if zzBool() {
			o.Port = 82
		}
	}
	got := t.Contains(&o)
	want := false
	for i := range pats {
		if zzTreeDenotes(&pats[i], o.Scheme, o.Host.Value, o.Port) {
			want = true
		}
	}
	if got {
		zzAssert(want, "tree contains an origin that no inserted pattern denotes")
		zzReach("contained")
	} else {
		zzAssert(!want, "tree does not contain an origin that an inserted pattern denotes")
		zzReach("not-contained")
	}
	if k == 3 {
		zzReach("three-patterns")
	}
}
