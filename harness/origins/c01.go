package origins

// C01, unit level — Tree.Insert / Tree.Contains against the documented
// denotation for *symbolic* patterns: schemes, hosts, `*.` prefixes and ports
// of up to three patterns are solver variables, so is the origin. The shape of
// the radix tree that Insert builds (which node is split, which pattern
// subsumes which, where a wildcard entry sits relative to longer and shorter
// hosts) is then determined by the path condition: every shape reachable
// within the length bounds is explored, not a menu of them. The same harness
// decides C15's claim for origin lists: the oracle is symmetric in the
// patterns and blind to repetition, and the patterns are inserted in the
// order drawn, so equality with it for every ordered k-tuple is order- and
// multiplicity-independence.

// zzValidHost: what ParsePattern / Parse guarantee about a host that reaches
// the tree: non-empty, over label bytes and dots, no empty label except that a
// trailing dot is tolerated. The alphabet is cut down to {a, b, .}: the tree
// only ever compares bytes for equality and order.
func zzValidHost(h string) bool {
	if len(h) == 0 || h[0] == '.' {
		return false
	}
	for i := 0; i < len(h); i++ {
		c := h[i]
		if c == '.' {
			if h[i-1] == '.' {
				return false
			}
			continue
		}
		if c != 'a' && c != 'b' {
			return false
		}
	}
	return true
}

type zzTreePat struct {
	p    Pattern
	subs bool
	base string // host without the leading "*."
	dotb string // "." + base for subs patterns
}

// zzDrawScheme: "z" or "zz", as a symbolic string, so that schemes are only
// told apart on the paths that actually compare them.
func zzDrawScheme() string {
	sc := zzString(2)
	zzAssume(len(sc) >= 1 && sc[0] == 'z' && (len(sc) == 1 || sc[1] == 'z'))
	return sc
}

// zzDrawPattern draws one pattern value as ParsePattern would produce it:
// scheme, host, `*.` prefix and port are all solver variables (no eager
// forking: a path splits on them only where Insert/Contains look at them).
func zzDrawPattern(maxHost int) zzTreePat {
	var tp zzTreePat
	tp.p.Scheme = zzDrawScheme()
	v := zzString(maxHost + 2)
	zzAssume(len(v) >= 1)
	if v[0] == '*' {
		zzAssume(len(v) >= 3 && v[1] == '.')
		tp.subs = true
		tp.base = v[2:]
		tp.dotb = v[1:]
		tp.p.Kind = PatternKindSubdomains
	} else {
		zzAssume(len(v) <= maxHost)
		tp.base = v
	}
	zzAssume(zzValidHost(tp.base))
	tp.p.HostPattern.Value = v
	port := zzInt()
	zzAssume(port == wildcardPort || (0 <= port && port <= 65535))
	tp.p.Port = port
	return tp
}

// zzTreeDenotes: C01's statement, literally.
func zzTreeDenotes(tp *zzTreePat, scheme, host string, port int) bool {
	if tp.p.Scheme != scheme {
		return false
	}
	if tp.p.Port != wildcardPort && tp.p.Port != port {
		return false
	}
	if !tp.subs {
		return host == tp.base
	}
	// host ends in "."+base with at least one more non-empty label in front
	n := len(tp.dotb)
	return len(host) > n && host[len(host)-n:] == tp.dotb
}

func zzH_C01_tree1() { zzC01Tree(1) }
func zzH_C01_tree2() { zzC01Tree(2) }

// zzC01Pool3: hosts for the three-pattern harness. Three fully symbolic hosts
// multiply into more paths than fit any budget, so for k=3 the hosts come from
// a pool built to force every structural case of Insert on a node that
// already has a subtree — split with the subtree moving to a grandchild
// (ab, bab, then bb), siblings under a common intermediate node (a.b, b.b)
// followed by a wildcard that ends exactly on that node (*.b), a wildcard
// above and below an exact host — while schemes and ports stay symbolic.
var zzC01Pool3 = []string{"ab", "bab", "bb", "a.b", "b.b", "*.b", "*.ab", "b", "aab", "*.a.b", "ab.", "*.bb"}

func zzH_C01_tree3() {
	n, maxHost := 7, 4
	if zzTier() >= 1 {
		n, maxHost = len(zzC01Pool3), 5
	}
	pats := make([]zzTreePat, 3)
	var t Tree
	for i := range pats {
		tp := &pats[i]
		v := zzC01Pool3[zzChoose(n)]
		// one scheme, port absent or 81: with three patterns the scheme/port
		// bookkeeping is left to the two-pattern harness (symbolic there);
		// what matters here is that entries on one host chain differ
		tp.p.Scheme = "z"
		tp.p.HostPattern.Value = v
		tp.base = v
		if v[0] == '*' {
			tp.subs, tp.base, tp.dotb = true, v[2:], v[1:]
			tp.p.Kind = PatternKindSubdomains
		}
		if zzChoose(2) == 1 {
			tp.p.Port = 81
		}
		t.Insert(&tp.p)
	}
	zzC01Probe(&t, pats, maxHost)
}

// zzC01Tree: k patterns inserted in the order drawn. Host bounds shrink as k
// grows (the product of the patterns' shapes is what costs).
func zzC01Tree(k int) {
	thorough := zzTier() >= 1
	maxPat, maxHost := 4, 6
	if k == 2 {
		maxPat, maxHost = 3, 4
		if thorough {
			maxPat, maxHost = 3, 5
		}
	}
	pats := make([]zzTreePat, k)
	var t Tree
	for i := range pats {
		pats[i] = zzDrawPattern(maxPat)
		t.Insert(&pats[i].p)
	}
	zzC01Probe(&t, pats, maxHost)
}

// zzC01Probe: one symbolic origin against the tree and against the oracle.
func zzC01Probe(t *Tree, pats []zzTreePat, maxHost int) {
	var o Origin
	o.Scheme = zzDrawScheme()
	o.Host.Value = zzString(maxHost)
	zzAssume(zzValidHost(o.Host.Value))
	port := zzInt()
	zzAssume(0 <= port && port <= 65535)
	o.Port = port
	got := t.Contains(&o)
	want := false
	for i := range pats {
		if zzTreeDenotes(&pats[i], o.Scheme, o.Host.Value, o.Port) {
			want = true
		}
	}
	if got {
		zzAssert(want, "tree contains an origin that no inserted pattern denotes")
		zzReach("contained")
	} else {
		zzAssert(!want, "tree does not contain an origin that an inserted pattern denotes")
		zzReach("not-contained")
	}
}
