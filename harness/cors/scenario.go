package cors

import "net/http"

// Scenarios: instead of the full product CFG x REQ (which multiplies every
// list menu with every request dimension), each scenario makes one aspect of
// configuration and request symbolic and pins the rest to benign constants.
// A harness draws the scenario first, so one harness entry covers the sum of
// the scenarios it enables. What is pinned is part of the stated bounds.

const (
	zzFOrigin   = iota // origin lists x Origin header bytes and multiplicity x request kind
	zzFMethod          // method lists x Access-Control-Request-Method bytes
	zzFHeaders         // request-header lists x Access-Control-Request-Headers lines
	zzFPNA             // PNA switches x Access-Control-Request-Private-Network
	zzFLists           // expose / max-age / status x request kinds
	zzFDispatch        // method bytes x presence and emptiness of Origin and ACRM
	zzFSteps           // every pair of preflight steps: which pass and which fail, from small menus
	zzFShortHdrs       // a discrete allow-list whose rendering fits into one symbolic field line
	zzNumFocus
)

const (
	zzAllowedOrigin    = "https://a.b"
	zzDisallowedOrigin = "https://b.a"
)

type zzScen struct {
	focus int
	c     *zzCfg
	m     *Middleware
	q     *zzRequest
	debug bool
}

func zzBaseLimits() zzLimits {
	// everything pinned: origins [https://a.b], methods *, request headers *,
	// expose x-b,x-r, max-age 600, default status, all switches off
	return zzLimits{origins: 1, fixOrigins: 1, methods: 1, fixMethods: 1, reqHdrs: 1, fixReqHdrs: 1,
		respHdrs: 1, fixRespHdrs: 2, maxAges: 1, fixMaxAge: 2, concreteStatus: true, fixedFlags: true}
}

func zzMkRequest(method string, origin, acrm, acrh, acrpn []string, hasO, hasM, hasH, hasP bool) *zzRequest {
	if !hasO {
		origin = nil
	}
	if !hasM {
		acrm = nil
	}
	if !hasH {
		acrh = nil
	}
	if !hasP {
		acrpn = nil
	}
	q := &zzRequest{method: method, origin: origin, hasOrigin: hasO, acrm: acrm, hasACRM: hasM,
		acrh: acrh, hasACRH: hasH, acrpn: acrpn, hasACRPN: hasP}
	hdr := http.Header{}
	if hasO {
		hdr[zzOrig] = origin
	}
	if hasM {
		hdr[zzACRM] = acrm
	}
	if hasH {
		hdr[zzACRH] = acrh
	}
	if hasP {
		hdr[zzACRPN] = acrpn
	}
	q.r = &http.Request{Method: method, Header: hdr}
	return q
}

// zzKind: 0 actual GET, 1 actual OPTIONS (no ACRM), 2 preflight asking for PUT
func zzKindRequest(kind int, origin []string, hasO bool) *zzRequest {
	switch kind {
	case 0:
		return zzMkRequest("GET", origin, nil, nil, nil, hasO, false, false, false)
	case 1:
		return zzMkRequest("OPTIONS", origin, nil, nil, nil, hasO, false, false, false)
	}
	return zzMkRequest("OPTIONS", origin, []string{"PUT"}, nil, nil, hasO, true, false, false)
}

// zzLongPortOrigin: an allowed scheme and host followed by a port part of up
// to 22 arbitrary bytes — long enough for a decimal that wraps a 64-bit
// accumulator (2^64 has 20 digits), which the short symbolic origins of the
// scenario cannot reach.
func zzLongPortOrigin() string {
	const pre = "https://a.b:"
	v := zzString(len(pre) + 22)
	zzAssume(len(v) >= len(pre) && v[:len(pre)] == pre)
	return v
}

func zzLiteralOrigin() []string {
	if zzChoose(2) == 0 {
		return []string{zzAllowedOrigin}
	}
	return []string{zzDisallowedOrigin}
}

func zzDrawScenario(enabled []int) zzScen {
	thorough := zzTier() >= 1
	s := zzScen{}
	if f := zzDevFocus(); f >= 0 {
		// development aid only (never set by a registered command): one scenario
		only := []int{}
		for _, e := range enabled {
			if e == f {
				only = append(only, e)
			}
		}
		enabled = only
		zzAssume(len(enabled) > 0)
	}
	s.focus = enabled[zzChoose(len(enabled))]
	l := zzBaseLimits()
	q := zzQuickLimits()
	switch s.focus {
	case zzFOrigin:
		l.origins = q.origins
		s.c = zzDrawCfg(l)
		s.c.cfg.Credentialed = zzBool()
		s.c.cfg.PrivateNetworkAccessInNoCORSModeOnly = zzBool()
		s.c.cfg.DangerouslyTolerateInsecureOrigins = true
		maxO := 13
		if thorough {
			maxO = 17
		}
		o, hasO := zzValues(maxO, true)
		if zzChoose(2) == 1 {
			o, hasO = []string{zzLongPortOrigin()}, true
		}
		s.q = zzKindRequest(zzChoose(3), o, hasO)
		if thorough {
			s.debug = zzBool()
		}
	case zzFMethod:
		l.methods = q.methods
		s.c = zzDrawCfg(l)
		s.c.cfg.Credentialed = zzBool()
		n := 6
		acrm := []string{zzString(n)}
		if zzChoose(2) == 1 {
			acrm = append(acrm, zzString(2))
		}
		s.q = zzMkRequest("OPTIONS", zzLiteralOrigin(), acrm, nil, nil, true, true, false, false)
		s.debug = zzBool()
	case zzFHeaders:
		l.reqHdrs = q.reqHdrs
		s.c = zzDrawCfg(l)
		s.c.cfg.Credentialed = zzBool()
		maxB, maxL := 5, 2
		if thorough {
			maxB, maxL = 6, 3
		}
		var acrh []string
		switch zzChoose(maxL + 1) {
		case 0:
			acrh = []string{}
		case 1:
			acrh = []string{zzString(maxB)}
		case 2:
			acrh = []string{zzString(maxB), zzString(maxB)}
		default:
			acrh = []string{zzString(maxB), zzString(maxB), zzString(maxB)}
		}
		s.q = zzMkRequest("OPTIONS", []string{zzAllowedOrigin}, []string{"GET"}, acrh, nil, true, true, true, false)
		s.debug = zzBool()
	case zzFPNA:
		if zzChoose(2) == 1 {
			l.fixOrigins = 0 // allow-all
		}
		s.c = zzDrawCfg(l)
		s.c.cfg.PrivateNetworkAccess = zzBool()
		s.c.cfg.PrivateNetworkAccessInNoCORSModeOnly = zzBool()
		s.c.cfg.Credentialed = zzBool()
		var acrpn []string
		hasP := true
		switch zzChoose(4) {
		case 0:
			hasP = false
		case 1:
			acrpn = []string{zzString(5)}
		case 2:
			acrpn = []string{} // the key is present, with no field line behind it
		default:
			acrpn = []string{"true", zzString(2)}
		}
		kind := zzChoose(3)
		q := zzKindRequest(kind, zzLiteralOrigin(), true)
		s.q = zzMkRequest(q.method, q.origin, q.acrm, nil, acrpn, true, q.hasACRM, false, hasP)
		s.debug = zzBool()
	case zzFLists:
		l.respHdrs, l.maxAges = q.respHdrs, q.maxAges
		l.concreteStatus = false
		if zzChoose(2) == 1 {
			l.fixOrigins = 0
		}
		s.c = zzDrawCfg(l)
		s.c.cfg.Credentialed = zzBool()
		s.q = zzKindRequest(zzChoose(3), zzLiteralOrigin(), zzChoose(2) != 0)
		s.debug = zzBool()
	case zzFDispatch:
		if zzChoose(2) == 1 {
			l.fixOrigins = 0
		}
		s.c = zzDrawCfg(l)
		s.c.cfg.PrivateNetworkAccessInNoCORSModeOnly = zzBool()
		o, hasO := zzValues(3, true)
		if hasO && len(o) > 0 && zzChoose(2) == 1 {
			o[0] = zzAllowedOrigin
		}
		am, hasM := zzValues(3, true)
		s.q = zzMkRequest(zzString(7), o, am, nil, nil, hasO, hasM, false, false)
		s.debug = zzBool()
	case zzFShortHdrs:
		l.fixReqHdrs = zzShortReqHdrMenu
		s.c = zzDrawCfg(l)
		s.c.cfg.Credentialed = zzBool()
		s.q = zzMkRequest("OPTIONS", []string{zzAllowedOrigin}, []string{"GET"}, []string{zzString(5)}, nil, true, true, true, false)
		s.debug = zzBool()
	case zzFSteps:
		// The byte-level scenarios pin every aspect but one, so a preflight in
		// them fails at most at the step they vary. Here each of the four
		// preflight steps (origin, private network, method, headers) passes or
		// fails independently of the others: configuration and request are
		// drawn from small menus, only the ACRPN value is symbolic.
		l.methods = 3   // none / * / PUT,patch
		l.reqHdrs = 5   // none / * / *+Authorization (both orders) / X-B,x-a
		s.c = zzDrawCfg(l)
		s.c.cfg.Credentialed = zzBool()
		s.c.cfg.PrivateNetworkAccess = zzBool()
		acrm := "PUT"
		if zzChoose(2) == 1 {
			acrm = "PURGE"
		}
		var acrh []string
		hasH := true
		switch zzChoose(3) {
		case 0:
			hasH = false
		case 1:
			acrh = []string{"x-a"}
		default:
			acrh = []string{"x_b", "x-q"}
		}
		var acrpn []string
		hasP := zzChoose(2) == 1
		if hasP {
			acrpn = []string{zzString(5)}
		}
		s.q = zzMkRequest("OPTIONS", zzLiteralOrigin(), []string{acrm}, acrh, acrpn, true, true, hasH, hasP)
		s.debug = zzBool()
	}
	m, err := NewMiddleware(s.c.cfg)
	zzAssume(err == nil)
	zzAssert(m != nil, "nil error with nil middleware")
	s.m = m
	if s.debug {
		m.SetDebug(true)
	}
	return s
}

var zzAllFocus = []int{zzFOrigin, zzFMethod, zzFHeaders, zzFPNA, zzFLists, zzFDispatch, zzFSteps}

// zzVariant picks one of n harness-level variants. The full product
// (variant x scenario) is explored for the scenarios with few request paths
// and in the thorough tier; the byte-level scenarios of the quick tier draw
// from the short list given for them (sum instead of product).
func (s *zzScen) zzVariant(n int, forOrigin, forMethod, forHeaders []int) int {
	rich := s.focus == zzFLists || s.focus == zzFPNA || s.focus == zzFDispatch || s.focus == zzFSteps
	if rich || zzTier() >= 1 {
		return zzChoose(n)
	}
	l := forOrigin
	switch s.focus {
	case zzFMethod:
		l = forMethod
	case zzFHeaders:
		l = forHeaders
	}
	if len(l) == 1 {
		return l[0]
	}
	return l[zzChoose(len(l))]
}
