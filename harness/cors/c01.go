package cors

// C01 — allowed origins are exactly the union of what the configured patterns denote.

// The pool uses a short custom scheme so that the interesting origins fit into
// few symbolic bytes (zz://x.a.b:81 is 13 bytes); scheme-specific rules
// (default ports, https) are C13's and C04's subject, not C01's.
var zzC01Pool = []zzPat{
	{raw: "zz://a.b", scheme: "zz", host: "a.b", insecure: true},
	{raw: "zz://*.a.b", scheme: "zz", host: "a.b", subs: true, insecure: true},
	{raw: "zz://xa.b", scheme: "zz", host: "xa.b", insecure: true}, // shares a non-label-boundary suffix with a.b
	{raw: "zz://*.b:*", scheme: "zz", host: "b", subs: true, port: -1, insecure: true, psl: true},
	{raw: "zz://a.b:81", scheme: "zz", host: "a.b", port: 81, insecure: true},
	{raw: "z://a.b", scheme: "z", host: "a.b", insecure: true}, // scheme that is a prefix of zz
	// from here on: thorough tier
	{raw: "zz://b", scheme: "zz", host: "b", insecure: true},
	{raw: "zz://a.b:*", scheme: "zz", host: "a.b", port: -1, insecure: true},
	{raw: "zz://a.b.", scheme: "zz", host: "a.b.", insecure: true},
	{raw: "zz://c.a.b", scheme: "zz", host: "c.a.b", insecure: true},
	{raw: "zz://[::1]:81", scheme: "zz", host: "::1", port: 81},
	{raw: "zz://1.2.3.4", scheme: "zz", host: "1.2.3.4", insecure: true},
	{raw: "zzz://a.b", scheme: "zzz", host: "a.b", insecure: true},
	{raw: "zz://ya.b", scheme: "zz", host: "ya.b", insecure: true},
	{raw: "zz://*.xa.b:81", scheme: "zz", host: "xa.b", subs: true, port: 81, insecure: true},
	{raw: "zz://*.a.b:65535", scheme: "zz", host: "a.b", subs: true, port: 65535, insecure: true},
}

// zzBrowserish: the origin is of the form browsers emit as far as brackets are
// concerned (brackets only around something containing a colon).
func zzBrowserish(o string) bool {
	open := -1
	for i := 0; i < len(o); i++ {
		if o[i] == '[' {
			open = i
			break
		}
	}
	if open < 0 {
		return true
	}
	for i := open + 1; i < len(o) && o[i] != ']'; i++ {
		if o[i] == ':' {
			return true
		}
	}
	return false
}

func zzH_C01_api() {
	// every ordered selection with repetition: 1 or 2 patterns from the pool,
	// 3 patterns from a smaller prefix of it
	pool, pool3, maxO := 6, 4, 13
	if zzTier() >= 1 {
		pool, pool3, maxO = len(zzC01Pool), 8, 16
	}
	maxK := 2 // three and more patterns: quick tier leaves them to the tree-level harnesses (harness/origins/c01.go)
	if zzTier() >= 1 {
		maxK = 3
	}
	if zzChoose(2) == 1 {
		zzC01Star(pool, maxO)
		return
	}
	k := zzChoose(maxK) + 1
	pats := make([]zzPat, k)
	for i := range pats {
		if k == 3 {
			pats[i] = zzC01Pool[zzChoose(pool3)]
		} else {
			pats[i] = zzC01Pool[zzChoose(pool)]
		}
	}
	cfg := Config{Origins: zzRaws(pats)}
	cfg.DangerouslyTolerateInsecureOrigins = true
	cfg.DangerouslyTolerateSubdomainsOfPublicSuffixes = true
	cfg.Credentialed = true // makes every verdict observable through ACAC as well
	m, err := NewMiddleware(cfg)
	zzAssert(err == nil && m != nil, "valid origin patterns rejected")
	if err != nil {
		return
	}
	o := zzString(maxO)
	q := zzMkRequest("GET", []string{o}, nil, nil, nil, true, false, false, false)
	_, resp := zzServe(m, q, nil, &zzHandler{})
	acao, has := resp.h[zzACAO]
	want := zzAllowedBy(pats, o)
	if has {
		zzAssert(len(acao) == 1 && acao[0] == o, "ACAO is not the request's origin")
		zzAssert(want, "an origin that no listed pattern denotes is treated as allowed")
		zzReach("allowed")
	} else {
		zzAssert(!want || !zzBrowserish(o), "an origin denoted by a listed pattern is not treated as allowed")
		zzReach("not-allowed")
	}
}

// zzC01Star: `*` listed together with discrete patterns, at every position:
// the configuration allows every origin, wherever the `*` stands.
func zzC01Star(pool, maxO int) {
	before := zzChoose(2) // patterns listed before the `*`
	after := zzChoose(2)  // and after it
	var list []string
	for i := 0; i < before; i++ {
		list = append(list, zzC01Pool[zzChoose(pool)].raw)
	}
	list = append(list, "*")
	for i := 0; i < after; i++ {
		list = append(list, zzC01Pool[zzChoose(pool)].raw)
	}
	cfg := Config{Origins: list}
	cfg.DangerouslyTolerateInsecureOrigins = true
	cfg.DangerouslyTolerateSubdomainsOfPublicSuffixes = true
	m, err := NewMiddleware(cfg)
	zzAssert(err == nil && m != nil, "`*` together with valid origin patterns rejected")
	if err != nil {
		return
	}
	o := zzString(maxO)
	q := zzMkRequest("GET", []string{o}, nil, nil, nil, true, false, false, false)
	_, resp := zzServe(m, q, nil, &zzHandler{})
	acao := resp.h[zzACAO]
	zzAssert(len(acao) == 1 && acao[0] == "*", "a configuration that lists `*` does not allow every origin")
	zzReach("star")
}
