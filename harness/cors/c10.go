package cors

import "net/http"

func zzLowerASCII(s string) string {
	b := []byte(s)
	for i := range b {
		if 'A' <= b[i] && b[i] <= 'Z' {
			b[i] += 32
		}
	}
	return string(b)
}

// zzVaryNames parses Vary values (concrete strings) into the set of the four
// request-header names the middleware ever consults.
func zzVaryNames(vals []string) (origin, acrm, acrh, acrpn bool) {
	for _, v := range vals {
		start := 0
		for i := 0; i <= len(v); i++ {
			if i == len(v) || v[i] == ',' {
				e := v[start:i]
				for len(e) > 0 && (e[0] == ' ' || e[0] == '\t') {
					e = e[1:]
				}
				for len(e) > 0 && (e[len(e)-1] == ' ' || e[len(e)-1] == '\t') {
					e = e[:len(e)-1]
				}
				switch zzLowerASCII(e) {
				case "origin":
					origin = true
				case "access-control-request-method":
					acrm = true
				case "access-control-request-headers":
					acrh = true
				case "access-control-request-private-network":
					acrpn = true
				case "*":
					origin, acrm, acrh, acrpn = true, true, true, true
				}
				start = i + 1
			}
		}
	}
	return
}

// C10 — Vary is sufficient: two requests with the same method that agree on
// every header named in the first response's Vary get the same treatment.
func zzH_C10_api() {
	s := zzDrawScenario(zzAllFocus)
	q1 := s.q
	var preset http.Header
	presetVary := true
	if s.focus == zzFDispatch {
		presetVary = zzBool()
	}
	if presetVary {
		preset = http.Header{zzVary: {zzPreVary}}
	}
	_, r1 := zzServe(s.m, q1, preset, &zzHandler{})
	vo, vm, vh, vp := zzVaryNames(r1.h[zzVary])
	if presetVary {
		zzAssert(len(r1.h[zzVary]) >= 1 && r1.h[zzVary][0] == zzPreVary, "pre-existing Vary value lost")
	}
	// second request: same method; headers named by Vary shared with the
	// first request, all others replaced together by one of three variants:
	// absent, present with fresh symbolic values, present with "interesting" literals
	variant := -1
	fresh := func(max int, literal string) ([]string, bool) {
		if variant < 0 {
			variant = zzChoose(3)
		}
		switch variant {
		case 0:
			return nil, false
		case 1:
			return []string{zzString(max)}, true
		}
		return []string{literal}, true
	}
	o, hasO := q1.origin, q1.hasOrigin
	if !vo {
		o, hasO = fresh(4, zzAllowedOrigin)
		zzReach("origin-free")
	}
	am, hasM := q1.acrm, q1.hasACRM
	if !vm {
		am, hasM = fresh(3, "PUT")
		zzReach("acrm-free")
	}
	ah, hasH := q1.acrh, q1.hasACRH
	if !vh {
		ah, hasH = fresh(3, "x-zz")
	}
	ap, hasP := q1.acrpn, q1.hasACRPN
	if !vp {
		ap, hasP = fresh(4, "true")
	}
	q2 := zzMkRequest(q1.method, o, am, ah, ap, hasO, hasM, hasH, hasP)
	var preset2 http.Header
	if presetVary {
		preset2 = http.Header{zzVary: {zzPreVary}}
	}
	_, r2 := zzServe(s.m, q2, preset2, &zzHandler{})
	zzAssert(r1.status == r2.status, "Vary-equivalent requests got different statuses")
	zzAssert(r1.calls == r2.calls, "Vary-equivalent requests dispatched differently")
	for _, k := range zzCORSResponseNames {
		v1, ok1 := r1.h[k]
		v2, ok2 := r2.h[k]
		zzAssert(ok1 == ok2 && zzEqStrs(v1, v2), "Vary-equivalent requests got different CORS headers")
	}
	zzAssert(zzEqStrs(r1.h[zzVary], r2.h[zzVary]), "Vary-equivalent requests got different Vary values")
}
