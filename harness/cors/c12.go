package cors

import "net/http"

const zzJunk = "zz-mutated"

func zzScribble(l []string) {
	for i := range l {
		l[i] = zzJunk
	}
}

func zzScribbleHeader(h http.Header) {
	for _, v := range h {
		zzScribble(v[:cap(v)])
	}
}

func zzScribbleCfg(c *Config) {
	zzScribble(c.Origins)
	zzScribble(c.Methods)
	zzScribble(c.RequestHeaders)
	zzScribble(c.ResponseHeaders)
}

func zzCloneCfg(c *Config) *Config {
	if c == nil {
		return nil
	}
	d := *c
	d.Origins = append([]string(nil), c.Origins...)
	d.Methods = append([]string(nil), c.Methods...)
	d.RequestHeaders = append([]string(nil), c.RequestHeaders...)
	d.ResponseHeaders = append([]string(nil), c.ResponseHeaders...)
	return &d
}

// zzProbes: a fixed battery of requests that exercises every kind of response.
func zzProbes() []*zzRequest {
	return []*zzRequest{
		zzMkRequest("OPTIONS", []string{zzAllowedOrigin}, []string{"PUT"}, []string{"x-a"}, nil, true, true, true, false),
		zzMkRequest("OPTIONS", []string{zzDisallowedOrigin}, []string{"PUT"}, nil, nil, true, true, false, false),
		zzMkRequest("GET", []string{zzAllowedOrigin}, nil, nil, nil, true, false, false, false),
		zzMkRequest("OPTIONS", nil, nil, nil, nil, false, false, false, false),
		zzMkRequest("OPTIONS", []string{zzAllowedOrigin}, []string{"GET"}, []string{"authorization"}, []string{"true"}, true, true, true, true),
	}
}

func zzProbeAll(m *Middleware) []zzResp {
	var out []zzResp
	for _, q := range zzProbes() {
		_, r := zzServe(m, q, nil, &zzHandler{})
		out = append(out, r)
	}
	return out
}

func zzSameAll(a, b []zzResp) bool {
	if len(a) != len(b) {
		return false
	}
	for i := range a {
		if !zzSameResp(a[i], b[i]) {
			return false
		}
	}
	return true
}

// C12 — behaviour is immune to caller-side mutation and to request history.
func zzH_C12_api() {
	s := zzDrawScenario(zzAllFocus)
	m := s.m
	// a second middleware alive in the same process, and a pristine reference
	cc := s.c.cfg
	other := new(Middleware)
	zzAssert(other.Reconfigure(&cc) == nil, "Reconfigure rejected an accepted configuration")
	ref, err := NewMiddleware(*zzCloneCfg(&s.c.cfg))
	zzAssert(err == nil, "clone of an accepted configuration rejected")
	if s.debug {
		other.SetDebug(true)
		ref.SetDebug(true)
	}
	want := zzProbeAll(ref)
	_, wantQ := zzServe(ref, s.q, nil, &zzHandler{})

	switch s.zzVariant(4, []int{2}, []int{0}, []int{1}) {
	case 0: // the caller scribbles over the Config it passed in
		zzAssert(!zzSharesMutable(m, &s.c.cfg), "middleware aliases a slice of the Config passed to NewMiddleware")
		zzAssert(!zzSharesMutable(other, &cc), "middleware aliases a slice of the Config passed to Reconfigure")
		zzScribbleCfg(&s.c.cfg)
		zzScribbleCfg(&cc)
		zzReach("scribble-config")
	case 1: // the caller scribbles over what Config() returned
		got := m.Config()
		snapshot := zzCloneCfg(got)
		zzAssert(!zzSharesMutable(got, m), "Config() result aliases the middleware's state")
		zzAssert(!zzReachesModuleState(got), "Config() result aliases package-level state")
		zzScribbleCfg(got)
		again := m.Config()
		zzAssert(zzSameCfg(snapshot, again), "mutating a Config() result changed later Config() results")
		zzAssert(!zzSharesMutable(got, again), "two Config() results alias each other")
		zzReach("scribble-config-result")
	case 2: // the wrapped handler scribbles over every header slice it can reach
		h := &zzHandler{}
		h.during = func(w http.ResponseWriter, r *http.Request) {
			zzAssert(!zzSharesMutable(w.Header(), m), "response headers visible to the handler alias middleware state")
			zzAssert(!zzReachesModuleState(w.Header()), "response headers visible to the handler alias package-level state")
			zzAssert(!zzSharesMutable(r.Header, m), "request headers alias middleware state")
			zzScribbleHeader(w.Header())
			zzScribbleHeader(r.Header)
			zzReach("scribble-headers")
		}
		zzServe(m, s.q, nil, h)
	default: // plain history: the symbolic request first
		zzServe(m, s.q, nil, &zzHandler{})
		zzReach("history")
	}
	zzAssert(zzSameAll(zzProbeAll(m), want), "later responses of the middleware changed")
	zzAssert(zzSameAll(zzProbeAll(other), want), "later responses of another middleware in the process changed")
	// and the other order: probes first, then the symbolic request
	if !s.q.hasOrigin || len(s.q.origin) == 0 || s.q.origin[0] != zzJunk {
		q2 := zzMkRequest(s.q.method, s.q.origin, s.q.acrm, s.q.acrh, s.q.acrpn, s.q.hasOrigin, s.q.hasACRM, s.q.hasACRH, s.q.hasACRPN)
		_, gotQ := zzServe(other, q2, nil, &zzHandler{})
		zzAssert(zzSameResp(gotQ, wantQ), "response depends on earlier requests")
	}
}
