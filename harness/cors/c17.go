package cors

import (
	"net/http"

	"github.com/jub0bs/cors/cfgerrors"
)

// C17 — no input can crash configuration or request handling. Every indexing,
// slicing, dereference, type assertion, division and explicit panic executed
// on any path of any harness is an obligation of the engine; these harnesses
// drive the surface with inputs that are not constrained by any validity assumption.

// zzH_C17_config: NewMiddleware / Reconfigure / Config / cfgerrors.All on
// arbitrary Config values (junk atoms, empty strings, nil and empty lists, symbolic integers).
func zzH_C17_config() {
	zzStubs(1) // IDNA / netip answer arbitrarily on symbolic hosts: no outcome of theirs may crash the caller
	var cfg Config
	pick := func(menu []string, sym int) []string {
		switch zzChoose(5) {
		case 0:
			return nil
		case 1:
			return []string{}
		case 2:
			return []string{menu[zzChoose(len(menu))]}
		case 3:
			return []string{menu[zzChoose(len(menu))], zzString(sym)}
		}
		return []string{zzString(2), menu[zzChoose(len(menu))], ""}
	}
	focus := zzChoose(4)
	cfg.Origins = []string{"https://a.b"}
	switch focus {
	case 0:
		cfg.Origins = pick([]string{"*", "https://a.b", "http://[::1]:9090", "", "https://", "https://[", "https://a.b:", "https://*.", "a", "https://a..b", "https://*.com"}, 5)
	case 1:
		cfg.Methods = pick([]string{"*", "PUT", "", "get", "CONNECT"}, 3)
	case 2:
		cfg.RequestHeaders = pick([]string{"*", "Authorization", "", "x-a", "Cookie"}, 3)
	default:
		cfg.ResponseHeaders = pick([]string{"*", "x-r", "", "Set-Cookie", "Content-Type"}, 3)
	}
	cfg.Credentialed = zzBool()
	if focus == 0 {
		cfg.PrivateNetworkAccess = zzBool()
		cfg.PrivateNetworkAccessInNoCORSModeOnly = zzBool()
		cfg.DangerouslyTolerateInsecureOrigins = zzBool()
		cfg.DangerouslyTolerateSubdomainsOfPublicSuffixes = zzBool()
	}
	cfg.PreflightSuccessStatus = zzInt()
	if zzChoose(2) == 1 {
		v := zzInt()
		zzAssume(v < -1 || v > 86400)
		cfg.MaxAgeInSeconds = v
	}
	m, err := NewMiddleware(cfg)
	n := 0
	for range cfgerrors.All(err) {
		n++
	}
	z := new(Middleware)
	_ = z.Config()
	_ = z.Reconfigure(&cfg) // (the stubs answer independently on each call: verdicts are compared in C04, not here)
	if err == nil && focus != 0 {
		c := m.Config()
		zzAssert(c != nil, "nil Config of a configured middleware")
		_ = m.Reconfigure(c)
		_ = m.Reconfigure(nil)
		_ = m.Config()
		zzReach("accepted")
	} else if err == nil {
		// focus 0 may hold a symbolic port, whose rendering by Config() is outside the engine's reach (C06 covers Config())
		_ = m.Reconfigure(nil)
		zzReach("accepted-symbolic")
	} else {
		zzAssert(n >= 1, "an error without leaves")
		zzReach("rejected")
	}
	for range cfgerrors.All(nil) {
	}
}

// zzH_C17_serve: ServeHTTP on arbitrary requests, including a nil header map,
// zero-length value lists and values far longer than any limit.
func zzH_C17_serve() {
	// the ordinary request space is driven (and checked for panics) by every
	// other API harness; here: a nil header map, odd pre-set writer state, and
	// values longer than any limit in the Origin and ACRH positions
	var s zzScen
	variant := zzChoose(4)
	switch variant {
	case 0:
		s = zzDrawScenario([]int{zzFDispatch})
	case 1:
		s = zzDrawScenario([]int{zzFHeaders})
	case 3:
		// the remaining scenarios as they are (symbolic ACRM / ACRPN bytes,
		// empty value lists, every combination of passing and failing steps)
		s = zzDrawScenario([]int{zzFMethod, zzFPNA, zzFSteps, zzFLists})
	default:
		s = zzDrawScenario([]int{zzFOrigin})
	}
	r := s.q.r
	switch variant {
	case 0:
		if zzChoose(2) == 1 {
			r = &http.Request{Method: s.q.method} // nil header map
		}
	case 1:
		// an extra, empty ACRH field line, or an ACRH key with a nil value list
		// (field lines longer than the bounds of C14 are outside the claim:
		// every comma position in every successive scan window forks)
		if zzChoose(2) == 1 {
			r.Header[zzACRH] = append(r.Header[zzACRH], "")
		} else {
			r.Header[zzACRH] = nil
		}
	case 3:
	default:
		zzAssume(len(r.Header[zzOrig]) > 0)
		r.Header[zzOrig][0] = zzLong()
	}
	w := zzNewWriter()
	if zzChoose(2) == 1 {
		w.h = http.Header{zzVary: nil, zzACAO: {}}
	}
	s.m.Wrap(&zzHandler{}).ServeHTTP(w, r)
	zzReach("served")
}

// zzLong: a value of any length between 400 bytes and 1 MiB, with arbitrary bytes.
func zzLong() string {
	v := zzString(1 << 20)
	zzAssume(len(v) > 400)
	return v
}
