package cors

import "github.com/jub0bs/cors/cfgerrors"

// C04 / C05 — configuration validation against the documented prohibitions.
// Lists are assembled from labelled atoms; the oracle computes, from the
// labels and the switches, the multiset of errors the documentation demands.

const (
	zzEOrigin  = iota // UnacceptableOriginPatternError
	zzEIncompat       // IncompatibleOriginPatternError
	zzEMethod         // UnacceptableMethodError
	zzEHeader         // UnacceptableHeaderNameError
	zzEMaxAge         // MaxAgeOutOfBoundsError
	zzEStatus         // PreflightSuccessStatusOutOfBoundsError
	zzEPNAModes       // IncompatiblePrivateNetworkAccessModesError
	zzEWildcardResp   // IncompatibleWildcardResponseHeaderNameError
	zzEOther
)

type zzErr struct {
	kind   int
	value  string
	reason string // "" = any of invalid|prohibited (origin patterns: the split is not documented per defect)
	typ    string
	ival   int
}

const (
	zzOSecure = iota
	zzOInsecure
	zzOPSL
	zzOStar
	zzOBad
	zzOInsecurePSL // both insecure and `*.<public suffix>`: two independent violations
)

type zzOAtom struct {
	raw  string
	kind int
}

var zzOAtoms = []zzOAtom{
	{"https://a.b", zzOSecure},
	{"http://a.b", zzOInsecure},
	{"https://*.com", zzOPSL},
	{"*", zzOStar},
	{"https://a.b/", zzOBad},
	{"null", zzOBad},
	{"https://a.b:443", zzOBad},
	{"http://*.a.b", zzOInsecure},
	{"http://*.com", zzOInsecurePSL},
	// thorough tier from here
	{"zz://*.co.uk:*", zzOInsecurePSL},
	{"https://*.co.uk:*", zzOPSL},
	{"https://*.com.", zzOPSL},
	{"http://localhost:*", zzOSecure},
	{"http://127.0.0.1:9090", zzOSecure},
	{"http://[::1]:9090", zzOSecure},
	{"zz://c", zzOInsecure},
	{"file:///x", zzOBad},
	{"https://A.b", zzOBad},
	{"https://*a.b", zzOBad},
	{"https://a.b:0", zzOBad},
	{"https://a.b:65536", zzOBad},
	{"http://[0:0::1]", zzOBad},
	{"https://127.0.0.1", zzOBad},
	{"", zzOBad},
	{" https://a.b", zzOBad},
	{"https://user@a.b", zzOBad},
	{"https://a.b?x", zzOBad},
	{"http://a.b:80", zzOBad},
	{"https://a.b:08443", zzOBad},
	{"https://é.b", zzOBad},
	{"http://*.127.0.0.1", zzOBad},
	{"https://a.*.b", zzOBad},
}

const (
	zzDNone = iota
	zzDInvalid
	zzDForbidden
	zzDProhibited
)

type zzNAtom struct {
	raw    string
	defect int
}

var zzMAtoms = []zzNAtom{
	{"PUT", zzDNone}, {"*", zzDNone}, {"CONNECT", zzDForbidden}, {"a b", zzDInvalid}, {"patch", zzDNone},
	{"trace", zzDForbidden}, {"", zzDInvalid}, {"GET", zzDNone}, {"TrAcK", zzDForbidden}, {"put", zzDNone}, {"OPTIONS", zzDNone}, {"é", zzDInvalid},
}

var zzHAtoms = []zzNAtom{
	{"X-A", zzDNone}, {"*", zzDNone}, {"Cookie", zzDForbidden}, {"Access-Control-Allow-Origin", zzDProhibited}, {"a b", zzDInvalid},
	{"Authorization", zzDNone}, {"", zzDInvalid}, {"Sec-X", zzDForbidden}, {"proxy-y", zzDForbidden}, {"ACCESS-CONTROL-MAX-AGE", zzDProhibited},
	{"Content-Type", zzDNone}, {"ORIGIN", zzDForbidden}, {"x:y", zzDInvalid},
}

var zzRAtoms = []zzNAtom{
	{"X-R", zzDNone}, {"*", zzDNone}, {"Set-Cookie", zzDForbidden}, {"Origin", zzDProhibited}, {"a:b", zzDInvalid},
	{"Content-Type", zzDNone}, {"", zzDInvalid}, {"SET-COOKIE2", zzDForbidden}, {"access-control-allow-methods", zzDProhibited}, {"Access-Control-Expose-Headers", zzDNone},
}

var zzReasons = []string{"", "invalid", "forbidden", "prohibited"}

func zzIsTchar(c byte) bool {
	if ('a' <= c && c <= 'z') || ('A' <= c && c <= 'Z') || ('0' <= c && c <= '9') {
		return true
	}
	switch c {
	case '!', '#', '$', '%', '&', '\'', '*', '+', '-', '.', '^', '_', '`', '|', '~':
		return true
	}
	return false
}

func zzIsToken(s string) bool {
	if len(s) == 0 {
		return false
	}
	for i := 0; i < len(s); i++ {
		if !zzIsTchar(s[i]) {
			return false
		}
	}
	return true
}

// zzDrawNames draws a list of 0..max atoms from the first n menu entries.
func zzDrawNames(menu []zzNAtom, n, max int) (list []string, atoms []zzNAtom) {
	k := zzChoose(max + 1)
	for i := 0; i < k; i++ {
		a := menu[zzChoose(n)]
		list = append(list, a.raw)
		atoms = append(atoms, a)
	}
	return
}

func zzExpectNames(atoms []zzNAtom, kind int, typ string) []zzErr {
	var out []zzErr
	for _, a := range atoms {
		if a.defect != zzDNone {
			out = append(out, zzErr{kind: kind, value: a.raw, reason: zzReasons[a.defect], typ: typ})
		}
	}
	return out
}

// zzClassify turns a leaf error into the comparable form; unknown types and
// nil pointers are reported as zzEOther.
func zzClassify(e error) zzErr {
	switch x := e.(type) {
	case *cfgerrors.UnacceptableOriginPatternError:
		if x != nil {
			return zzErr{kind: zzEOrigin, value: x.Value, reason: x.Reason}
		}
	case *cfgerrors.IncompatibleOriginPatternError:
		if x != nil {
			return zzErr{kind: zzEIncompat, value: x.Value, reason: x.Reason}
		}
	case *cfgerrors.UnacceptableMethodError:
		if x != nil {
			return zzErr{kind: zzEMethod, value: x.Value, reason: x.Reason}
		}
	case *cfgerrors.UnacceptableHeaderNameError:
		if x != nil {
			return zzErr{kind: zzEHeader, value: x.Value, reason: x.Reason, typ: x.Type}
		}
	case *cfgerrors.MaxAgeOutOfBoundsError:
		if x != nil && x.Default == 5 && x.Max == 86400 && x.Disable == -1 {
			return zzErr{kind: zzEMaxAge, ival: x.Value}
		}
	case *cfgerrors.PreflightSuccessStatusOutOfBoundsError:
		if x != nil && x.Default == 204 && x.Min == 200 && x.Max == 299 {
			return zzErr{kind: zzEStatus, ival: x.Value}
		}
	case *cfgerrors.IncompatiblePrivateNetworkAccessModesError:
		if x != nil {
			return zzErr{kind: zzEPNAModes}
		}
	case *cfgerrors.IncompatibleWildcardResponseHeaderNameError:
		if x != nil {
			return zzErr{kind: zzEWildcardResp}
		}
	}
	return zzErr{kind: zzEOther}
}

func zzErrMatches(got, want zzErr) bool {
	if got.kind != want.kind || got.value != want.value || got.typ != want.typ || got.ival != want.ival {
		return false
	}
	if want.reason == "" && want.kind == zzEOrigin {
		return got.reason == "invalid" || got.reason == "prohibited"
	}
	return got.reason == want.reason
}

// zzSameErrors: multiset equality.
func zzSameErrors(got, want []zzErr) bool {
	if len(got) != len(want) {
		return false
	}
	used := make([]bool, len(want))
	for _, g := range got {
		found := false
		for i, w := range want {
			if !used[i] && zzErrMatches(g, w) {
				used[i] = true
				found = true
				break
			}
		}
		if !found {
			return false
		}
	}
	return true
}

func zzHasPrefix(s, p string) bool { return len(s) >= len(p) && s[:len(p)] == p }

// zzH_C04_validate: NewMiddleware accepts exactly the configurations without a
// documented violation, and reports exactly the documented errors otherwise.
func zzH_C04_validate() {
	thorough := zzTier() >= 1
	nO, nN, maxList := 9, 7, 2
	if thorough {
		nO, nN, maxList = len(zzOAtoms), 10, 2
	}
	var cfg Config
	var want []zzErr
	// one list is drawn in full (focus); the switches are symbolic where the
	// focus depends on them; the rest of the configuration is one of three
	// backgrounds (all valid / one defect everywhere / mixed): a sum, not a product
	focus := zzChoose(5)
	background := zzChoose(3)
	bgDefect := func(which int) bool {
		return background == 1 || (background == 2 && which%2 == 0)
	}
	if focus == 0 || focus == 4 {
		cfg.Credentialed = zzBool()
		cfg.PrivateNetworkAccess = zzBool()
		cfg.PrivateNetworkAccessInNoCORSModeOnly = zzBool()
		cfg.DangerouslyTolerateInsecureOrigins = zzBool()
		cfg.DangerouslyTolerateSubdomainsOfPublicSuffixes = zzBool()
	} else {
		cfg.Credentialed = zzBool()
		cfg.PrivateNetworkAccess = background == 1
	}
	pna := cfg.PrivateNetworkAccess || cfg.PrivateNetworkAccessInNoCORSModeOnly

	// status
	if focus == 4 {
		cfg.PreflightSuccessStatus = zzInt()
	} else if bgDefect(1) {
		cfg.PreflightSuccessStatus = 300
	}
	st := cfg.PreflightSuccessStatus
	if st != 0 && (st < 200 || st > 299) {
		want = append(want, zzErr{kind: zzEStatus, ival: st})
		zzReach("bad-status")
	}
	if cfg.PrivateNetworkAccess && cfg.PrivateNetworkAccessInNoCORSModeOnly {
		want = append(want, zzErr{kind: zzEPNAModes})
	}
	// origins
	var oatoms []zzOAtom
	if focus == 0 {
		k := zzChoose(maxList + 1)
		for i := 0; i < k; i++ {
			oatoms = append(oatoms, zzOAtoms[zzChoose(nO)])
		}
	} else {
		oatoms = []zzOAtom{zzOAtoms[background]} // secure / insecure / public suffix
	}
	if len(oatoms) == 0 {
		want = append(want, zzErr{kind: zzEOrigin, value: "", reason: "missing"})
	}
	for _, a := range oatoms {
		cfg.Origins = append(cfg.Origins, a.raw)
		switch a.kind {
		case zzOBad:
			want = append(want, zzErr{kind: zzEOrigin, value: a.raw})
		case zzOStar:
			if cfg.Credentialed {
				want = append(want, zzErr{kind: zzEIncompat, value: "*", reason: "credentialed"})
			}
			if pna {
				want = append(want, zzErr{kind: zzEIncompat, value: "*", reason: "pna"})
			}
		case zzOInsecure, zzOInsecurePSL:
			if !cfg.DangerouslyTolerateInsecureOrigins {
				if cfg.Credentialed {
					want = append(want, zzErr{kind: zzEIncompat, value: a.raw, reason: "credentialed"})
				}
				if pna {
					want = append(want, zzErr{kind: zzEIncompat, value: a.raw, reason: "pna"})
				}
			}
		}
		if a.kind == zzOPSL || a.kind == zzOInsecurePSL {
			if !cfg.DangerouslyTolerateSubdomainsOfPublicSuffixes {
				want = append(want, zzErr{kind: zzEIncompat, value: a.raw, reason: "psl"})
			}
		}
	}
	// methods
	var matoms []zzNAtom
	if focus == 1 && background != 0 {
		cfg.Methods, matoms = zzDrawNames(zzMAtoms, nN, maxList)
	} else if focus == 1 {
		cfg.Methods, matoms = zzDrawNames(zzMAtoms, nN, 1)
		{ // plus one arbitrary byte string
			junk := zzString(4)
			cfg.Methods = append(cfg.Methods, junk)
			if !zzIsToken(junk) { // no forbidden method has 4 bytes or fewer
				want = append(want, zzErr{kind: zzEMethod, value: junk, reason: "invalid"})
			}
			zzReach("junk-method")
		}
	} else if bgDefect(2) {
		cfg.Methods, matoms = []string{"PUT", "CONNECT"}, []zzNAtom{{"CONNECT", zzDForbidden}}
	}
	want = append(want, zzExpectNames(matoms, zzEMethod, "")...)
	// request headers
	var hatoms []zzNAtom
	if focus == 2 && background != 0 {
		cfg.RequestHeaders, hatoms = zzDrawNames(zzHAtoms, nN, maxList)
	} else if focus == 2 {
		cfg.RequestHeaders, hatoms = zzDrawNames(zzHAtoms[:2], 2, 1)
		{
			junk := zzString(4)
			cfg.RequestHeaders = append(cfg.RequestHeaders, junk)
			l := zzLowerASCII(junk)
			if !zzIsToken(junk) {
				want = append(want, zzErr{kind: zzEHeader, value: junk, reason: "invalid", typ: "request"})
			} else if l == "te" || l == "via" || l == "dnt" || l == "date" || l == "host" || zzHasPrefix(l, "sec-") {
				want = append(want, zzErr{kind: zzEHeader, value: junk, reason: "forbidden", typ: "request"})
			}
			zzReach("junk-header")
		}
	} else if bgDefect(3) {
		cfg.RequestHeaders, hatoms = []string{"x-a", "Sec-X"}, []zzNAtom{{"Sec-X", zzDForbidden}}
	}
	want = append(want, zzExpectNames(hatoms, zzEHeader, "request")...)
	// max-age
	maxAgeKind := 0
	if focus == 4 {
		maxAgeKind = zzChoose(6)
	} else if bgDefect(4) {
		maxAgeKind = 4
	}
	switch maxAgeKind {
	case 0:
	case 1:
		cfg.MaxAgeInSeconds = -1
	case 2:
		cfg.MaxAgeInSeconds = -2
	case 3:
		cfg.MaxAgeInSeconds = 86400
	case 4:
		cfg.MaxAgeInSeconds = 86401
	default:
		v := zzInt()
		zzAssume(v < -1 || v > 86400)
		cfg.MaxAgeInSeconds = v
	}
	if cfg.MaxAgeInSeconds < -1 || cfg.MaxAgeInSeconds > 86400 {
		want = append(want, zzErr{kind: zzEMaxAge, ival: cfg.MaxAgeInSeconds})
		zzReach("bad-max-age")
	}
	// response headers
	var ratoms []zzNAtom
	if focus == 3 {
		cfg.ResponseHeaders, ratoms = zzDrawNames(zzRAtoms, nN, maxList)
	} else if bgDefect(5) {
		cfg.ResponseHeaders, ratoms = []string{"*", "Set-Cookie"}, []zzNAtom{{"*", zzDNone}, {"Set-Cookie", zzDForbidden}}
	}
	for _, a := range ratoms {
		if a.raw == "*" && cfg.Credentialed {
			want = append(want, zzErr{kind: zzEWildcardResp})
		}
	}
	want = append(want, zzExpectNames(ratoms, zzEHeader, "response")...)

	m, err := NewMiddleware(cfg)
	// C04: accepted => no documented violation; C05: no violation => accepted
	zzAssert((err == nil) == (len(want) == 0), "acceptance disagrees with the documented prohibitions")
	zzAssert((m == nil) == (err != nil), "NewMiddleware: error and middleware are not mutually exclusive")
	if err == nil {
		zzReach("accepted")
	} else {
		zzReach("rejected")
		var got []zzErr
		for e := range cfgerrors.All(err) {
			zzAssert(e != nil, "nil error among the configuration errors")
			if e == nil {
				continue
			}
			g := zzClassify(e)
			zzAssert(g.kind != zzEOther, "configuration error that is not a non-nil pointer to an exported cfgerrors type with the documented bounds")
			msg := e.Error()
			zzAssert(zzHasPrefix(msg, "cors: "), "configuration error message does not start with `cors: `")
			got = append(got, g)
		}
		zzAssert(len(got) == len(want), "number of reported errors differs from the number of violations")
		zzAssert(zzSameErrors(got, want), "reported errors differ from the documented ones (type, value as supplied, reason)")
		if len(want) >= 3 {
			zzReach("three-violations")
		}
	}
	// Reconfigure gives the same verdict, on a zero value and on a configured middleware
	z := new(Middleware)
	cc := cfg
	zzAssert((z.Reconfigure(&cc) == nil) == (err == nil), "Reconfigure on a zero value disagrees with NewMiddleware")
	if focus == 4 {
		base, berr := NewMiddleware(*zzCfgA())
		zzAssert(berr == nil, "configuration A rejected")
		zzAssert((base.Reconfigure(&cc) == nil) == (err == nil), "Reconfigure on a configured middleware disagrees with NewMiddleware")
	}
}
