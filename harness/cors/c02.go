package cors

// C02 — a Fetch-compliant browser's verdict equals what the configuration means.

// zzIntent is a cross-origin request a browser issues in cors mode.
type zzIntent struct {
	origin      string
	method      string   // as handed to fetch(); the browser normalises it
	headers     []string // CORS-unsafe request-header names: byte-lowercase, sorted, unique
	credentials bool     // credentials mode "include"
	pna         bool     // the target is on a more private network
}

// zzNormalizeMethod: Fetch's method normalisation.
func zzNormalizeMethod(m string) string {
	u := zzUpperASCII(m)
	switch u {
	case "DELETE", "GET", "HEAD", "OPTIONS", "POST", "PUT":
		return u
	}
	return m
}

func zzSafelistedMethod(m string) bool { return m == "GET" || m == "HEAD" || m == "POST" }

// zzListValues: Fetch's "extract header list values" for a comma-separated
// list of tokens spread over several field lines.
func zzListValues(lines []string) []string {
	var out []string
	for _, line := range lines {
		start := 0
		for i := 0; i <= len(line); i++ {
			if i < len(line) && line[i] != ',' {
				continue
			}
			e := line[start:i]
			start = i + 1
			for len(e) > 0 && (e[0] == ' ' || e[0] == '\t') {
				e = e[1:]
			}
			for len(e) > 0 && (e[len(e)-1] == ' ' || e[len(e)-1] == '\t') {
				e = e[:len(e)-1]
			}
			if e != "" {
				out = append(out, e)
			}
		}
	}
	return out
}

func zzContains(l []string, s string) bool {
	for _, x := range l {
		if x == s {
			return true
		}
	}
	return false
}

func zzContainsFold(l []string, s string) bool {
	for _, x := range l {
		if zzLowerASCII(x) == zzLowerASCII(s) {
			return true
		}
	}
	return false
}

// zzCORSCheck: Fetch's CORS check on one response.
func zzCORSCheck(in zzIntent, r zzResp) bool {
	acao := r.h[zzACAO]
	if len(acao) != 1 {
		return false // absent, or several values (combined value never matches)
	}
	if !in.credentials && acao[0] == "*" {
		return true
	}
	if acao[0] != in.origin {
		return false
	}
	if !in.credentials {
		return true
	}
	acac := r.h[zzACAC]
	return len(acac) == 1 && acac[0] == "true"
}

// zzBrowserVerdict runs the CORS-preflight fetch (when Fetch requires one) and
// the actual request against the middleware and applies the browser's checks.
func zzBrowserVerdict(m *Middleware, in zzIntent, perturb int) bool {
	method := zzNormalizeMethod(in.method)
	needPreflight := !zzSafelistedMethod(method) || len(in.headers) > 0 || in.pna
	if needPreflight {
		var acrh []string
		if len(in.headers) > 0 {
			acrh = zzPerturb(in.headers, perturb)
		}
		var acrpn []string
		if in.pna {
			acrpn = []string{"true"}
		}
		q := zzMkRequest("OPTIONS", []string{in.origin}, []string{method}, acrh, acrpn, true, true, len(in.headers) > 0, in.pna)
		_, r := zzServe(m, q, nil, &zzHandler{})
		if r.calls != 0 {
			return false // the preflight reached the application: no CORS headers from the middleware
		}
		if !zzCORSCheck(in, r) {
			return false
		}
		if r.status < 200 || r.status > 299 {
			return false
		}
		methods := zzListValues(r.h[zzACAM])
		names := zzListValues(r.h[zzACAH])
		if !zzContains(methods, method) && !zzSafelistedMethod(method) && (in.credentials || !zzContains(methods, "*")) {
			return false
		}
		for _, h := range in.headers {
			if h == "authorization" && !zzContainsFold(names, h) {
				return false // CORS non-wildcard request-header name
			}
			if !zzContainsFold(names, h) && (in.credentials || !zzContains(names, "*")) {
				return false
			}
		}
		if in.pna {
			v := r.h[zzACAPN]
			if len(v) != 1 || v[0] != "true" {
				return false
			}
		}
	}
	q := zzMkRequest(method, []string{in.origin}, nil, nil, nil, true, false, false, false)
	_, r := zzServe(m, q, nil, &zzHandler{})
	return zzCORSCheck(in, r)
}

// zzPerturb renders the header-name list the way intermediaries may alter it.
func zzPerturb(names []string, kind int) []string {
	join := func(l []string, sep string) string {
		s := ""
		for i, n := range l {
			if i > 0 {
				s += sep
			}
			s += n
		}
		return s
	}
	switch kind {
	case 1:
		return []string{join(names, ", ")}
	case 2:
		return []string{join(names, "\t,")}
	case 3:
		return []string{"," + join(names, ",,") + ","}
	case 4:
		if len(names) >= 2 {
			return []string{join(names[:1], ","), join(names[1:], ",")}
		}
		return []string{"", join(names, ",")}
	case 5:
		if len(names) >= 3 {
			return []string{names[0], " " + names[1] + " ", join(names[2:], ",")}
		}
		return []string{join(names, ","), ""}
	}
	return []string{join(names, ",")}
}

// zzPermits: what the configuration means for the intent, from the Config as supplied.
func zzPermits(c *zzCfg, in zzIntent) bool {
	if c.cfg.PrivateNetworkAccessInNoCORSModeOnly {
		return false
	}
	if !c.allowAll && !c.originAllowed(in.origin) {
		return false
	}
	if in.credentials && !c.cfg.Credentialed {
		return false
	}
	method := zzNormalizeMethod(in.method)
	if !zzSafelistedMethod(method) && !c.methods.any && !zzContains(c.methods.set, method) {
		return false
	}
	for _, h := range in.headers {
		listed := zzContains(c.reqHdrs.names, h) || (h == "authorization" && c.reqHdrs.auth)
		covered := c.reqHdrs.asterisk && (h != "authorization" || c.cfg.Credentialed)
		if !listed && !covered {
			return false
		}
	}
	if in.pna && !c.cfg.PrivateNetworkAccess {
		return false
	}
	return true
}

var zzHeaderUniverse = []string{"authorization", "x-a", "x_b", "x-c"}

func zzH_C02_api() {
	thorough := zzTier() >= 1
	l := zzBaseLimits()
	in := zzIntent{origin: zzAllowedOrigin, method: "GET"}
	perturb := 0
	focus := zzChoose(3)
	var c *zzCfg
	switch focus {
	case 0: // methods
		l.methods = len(zzMethodMenus)
		c = zzDrawCfg(l)
		c.cfg.Credentialed = zzBool()
		in.method = zzString(6)
		zzAssume(zzIsToken(in.method))
		in.credentials = zzBool()
		zzReach("method-focus")
	case 1: // request headers
		l.reqHdrs = len(zzReqHdrMenus)
		c = zzDrawCfg(l)
		c.cfg.Credentialed = zzBool()
		for _, h := range zzHeaderUniverse {
			if zzBool() {
				in.headers = append(in.headers, h)
			}
		}
		np := 4
		if thorough {
			np = 6
		}
		if len(in.headers) > 0 {
			perturb = zzChoose(np)
		}
		in.credentials = zzBool()
		if zzChoose(2) == 1 {
			in.method = "PUT"
		}
		zzReach("header-focus")
	default: // origin, credentials, private network
		l.origins = 3
		c = zzDrawCfg(l)
		c.cfg.Credentialed = zzBool()
		c.cfg.PrivateNetworkAccess = zzBool()
		c.cfg.PrivateNetworkAccessInNoCORSModeOnly = zzBool()
		switch zzChoose(3) {
		case 1:
			in.origin = zzDisallowedOrigin
		case 2:
			in.origin = "https://x.a.b:8443"
		}
		in.credentials = zzBool()
		in.pna = zzBool()
		switch zzChoose(3) {
		case 1:
			in.method = "PUT"
		case 2:
			in.method = "delete"
		}
		zzReach("origin-focus")
	}
	m, err := NewMiddleware(c.cfg)
	zzAssume(err == nil)
	want := zzPermits(c, in)
	off := zzBrowserVerdict(m, in, perturb)
	zzAssert(off == want, "browser verdict (debug off) differs from what the configuration means")
	m.SetDebug(true)
	on := zzBrowserVerdict(m, in, perturb)
	zzAssert(on == want, "browser verdict (debug on) differs from what the configuration means")
	if want {
		zzReach("permitted")
	} else {
		zzReach("refused")
	}
}
