package cors

// Two valid configurations that differ in every observable aspect, both with
// a discrete method list so that the debug probe (a preflight failing at the
// method step) is meaningful.
func zzCfgA() *Config {
	return &Config{Origins: []string{zzAllowedOrigin}, Methods: []string{"PUT"}, RequestHeaders: []string{"x-a"},
		MaxAgeInSeconds: 600, ResponseHeaders: []string{"x-r"}}
}

func zzCfgB() *Config {
	return &Config{Origins: []string{zzAllowedOrigin, "https://*.b.c:*"}, Credentialed: true, Methods: []string{"DELETE", "PATCH"},
		RequestHeaders: []string{"*"}, MaxAgeInSeconds: -1,
		ExtraConfig: ExtraConfig{PreflightSuccessStatus: 200, PrivateNetworkAccess: true}}
}

func zzCfgInvalid() *Config {
	return &Config{Origins: []string{"https://a.b/"}, Methods: []string{"PUT"}}
}

// C09(a) — debug mode follows the documented state machine over any history.
func zzH_C09_history() {
	n := 4
	if zzTier() >= 1 {
		n = 6
	}
	// reference automaton
	var m *Middleware
	configured := false
	debug := false
	if zzChoose(2) == 0 {
		m = new(Middleware)
	} else {
		var err error
		m, err = NewMiddleware(*zzCfgA())
		zzAssert(err == nil && m != nil, "configuration A rejected")
		configured = true
	}
	steps := zzChoose(n) + 1
	for i := 0; i < steps; i++ {
		switch zzChoose(6) {
		case 0:
			m.SetDebug(true)
			if configured {
				debug = true
			}
		case 1:
			m.SetDebug(false)
			debug = false
		case 2:
			zzAssert(m.Reconfigure(nil) == nil, "Reconfigure(nil) failed")
			configured, debug = false, false
		case 3:
			zzAssert(m.Reconfigure(zzCfgA()) == nil, "Reconfigure(A) failed")
			configured = true
		case 4:
			zzAssert(m.Reconfigure(zzCfgB()) == nil, "Reconfigure(B) failed")
			configured = true
		default:
			zzAssert(m.Reconfigure(zzCfgInvalid()) != nil, "Reconfigure(invalid) succeeded")
		}
		// observe after every step
		zzAssert((m.Config() != nil) == configured, "passthrough-ness differs from the documented state machine")
		want := -1
		if configured {
			want = 0
			if debug {
				want = 1
			}
		}
		zzAssert(zzDebugProbe(m, zzAllowedOrigin) == want, "debug mode differs from the documented state machine")
	}
	zzReach("history")
}

// C09(b) — debug mode changes only the diagnostics attached to failing preflights.
func zzH_C09_diag() {
	s := zzDrawScenario([]int{zzFOrigin, zzFMethod, zzFHeaders, zzFPNA, zzFLists, zzFSteps, zzFShortHdrs})
	zzAssume(!s.debug)
	_, off := zzServe(s.m, s.q, nil, &zzHandler{})
	s.m.SetDebug(true)
	_, on := zzServe(s.m, s.q, nil, &zzHandler{})
	failingPreflight := s.q.isPreflight() && off.status == 403
	c := s.c
	if !failingPreflight {
		// Identical, except for the one diagnostic the documentation names that
		// debug mode attaches whenever the header step is reached with a
		// discrete list: the full allowed-header list instead of the echo.
		exempt := s.q.isPreflight() && s.q.hasACRH && !c.reqHdrs.asterisk
		if exempt {
			want := ""
			for i, n := range zzMergeAuth(c.reqHdrs) {
				if i > 0 {
					want += ","
				}
				want += n
			}
			acah := on.h[zzACAH]
			zzAssert(len(acah) == 1 && acah[0] == want, "debug-mode ACAH is not the configured allowed-header list")
			delete(on.h, zzACAH)
			delete(off.h, zzACAH)
			zzReach("debug-acah")
		}
		zzAssert(zzSameResp(off, on), "debug mode changed a response other than a failing preflight's")
		zzReach("same")
		return
	}
	zzReach("failing-preflight")
	zzAssert(on.calls == 0, "debug mode let a preflight through to the handler")
	// diagnostics only: an ok status once the origin step passed (403 otherwise), same Vary
	_, originOK := on.h[zzACAO]
	if originOK {
		zzAssert(on.status == c.okStatus(), "debug-mode failing preflight past the origin step without the configured ok status")
	} else {
		zzAssert(on.status == 403, "debug-mode preflight failing at the origin step without 403")
	}
	zzAssert(zzEqStrs(off.h[zzVary], on.h[zzVary]), "debug mode changed Vary")
}

// zzMergeAuth: the configured discrete names incl. authorization, sorted.
func zzMergeAuth(a zzReqHdrsAtom) []string {
	var out []string
	added := !a.auth
	for _, n := range a.names {
		if !added && "authorization" < n {
			out = append(out, "authorization")
			added = true
		}
		out = append(out, n)
	}
	if !added {
		out = append(out, "authorization")
	}
	return out
}
