package cors

// Reference reading of C14, written from the property's statement.

func zzIsOWS(c byte) bool { return c == ' ' || c == '\t' }

// zzTrim1 strips at most one OWS byte per side; ok is false if more than one
// OWS byte pads a side of a non-empty element.
func zzTrim1(e string) (string, bool) {
	if len(e) > 0 && zzIsOWS(e[0]) {
		e = e[1:]
	}
	if len(e) > 0 && zzIsOWS(e[len(e)-1]) {
		e = e[:len(e)-1]
	}
	if len(e) > 0 && (zzIsOWS(e[0]) || zzIsOWS(e[len(e)-1])) {
		return e, false
	}
	return e, true
}

// zzIndex: position of name in the sorted list, or -1.
func zzIndex(sorted []string, name string) int {
	for i, s := range sorted {
		if s == name {
			return i
		}
	}
	return -1
}

// zzRefCheck: the lines, read in order as comma-separated lists, are approved
// iff every element carries at most one OWS byte per side, at most 16 elements
// are empty, and the non-empty elements are allowed names in strictly
// increasing position of the sorted set.
func zzRefCheck(sorted []string, lines []string) bool {
	last := -1
	empties := 0
	for _, line := range lines {
		start := 0
		for i := 0; i <= len(line); i++ {
			if i < len(line) && line[i] != ',' {
				continue
			}
			e, ok := zzTrim1(line[start:i])
			start = i + 1
			if !ok {
				return false
			}
			if e == "" {
				empties++
				if empties > 16 {
					return false
				}
				continue
			}
			k := zzIndex(sorted, e)
			if k < 0 || k <= last {
				return false
			}
			last = k
		}
	}
	return true
}

var zzSets = [][]string{
	{"a"},
	{"a", "ab", "b"},
	{"ab", "b"},
	{"a", "b", "c"},
	{"x-a", "x-b"},
	{"aaaa"},
}


// zzH_C14_api: the same field lines presented to a middleware configured with
// the discrete allowed names, debug off: the preflight succeeds iff the
// reference approves the lines.
func zzH_C14_api() {
	type shape struct{ set, lines, bytes int }
	shapes := []shape{{0, 1, 6}, {1, 2, 4}, {3, 1, 5}, {4, 1, 5}}
	if zzTier() >= 1 {
		shapes = []shape{{0, 1, 7}, {0, 2, 5}, {1, 2, 5}, {1, 3, 4}, {2, 2, 5}, {3, 2, 5}, {4, 1, 7}, {5, 1, 7}}
	}
	sh := shapes[zzChoose(len(shapes))]
	names := zzSets[sh.set]
	// listed in reverse order and upper case: the configuration is a case-insensitive set
	var listed []string
	for i := len(names) - 1; i >= 0; i-- {
		listed = append(listed, zzUpperASCII(names[i]))
	}
	m, err := NewMiddleware(Config{Origins: []string{zzAllowedOrigin}, RequestHeaders: listed, Credentialed: zzBool()})
	zzAssert(err == nil && m != nil, "discrete request-header names rejected")
	if err != nil {
		return
	}
	lines := make([]string, sh.lines)
	for i := range lines {
		lines[i] = zzString(sh.bytes)
	}
	q := zzMkRequest("OPTIONS", []string{zzAllowedOrigin}, []string{"GET"}, lines, nil, true, true, true, false)
	_, resp := zzServe(m, q, nil, &zzHandler{})
	approved := resp.status != 403
	want := zzRefCheck(names, lines)
	zzAssert(approved == want, "preflight verdict on Access-Control-Request-Headers disagrees with the documented reading")
	if approved {
		acah := resp.h[zzACAH]
		zzAssert(zzEqStrs(acah, lines), "approved preflight does not reflect the request's own field lines")
		zzReach("approved")
	} else {
		zzReach("rejected")
	}
}
