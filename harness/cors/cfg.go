package cors

// Configuration space CFG(tier): lists are drawn from labelled menus (each
// entry carries its documented meaning, written by hand), switches and the
// success status are symbolic, max-age comes from a pinned set.

type zzMethodsAtom struct {
	list []string
	any  bool     // `*` listed
	set  []string // listed methods after Fetch normalisation, safelisted ones included
}

type zzReqHdrsAtom struct {
	list     []string
	asterisk bool
	auth     bool     // Authorization listed explicitly
	names    []string // byte-lowercase, sorted, unique, without authorization
}

type zzRespHdrsAtom struct {
	list     []string
	asterisk bool
	aceh     string // documented rendering when `*` is not listed
}

type zzMaxAgeAtom struct {
	v    int
	acma string // "" = header absent
}

var zzOriginMenus = [][]zzPat{
	nil, // stands for ["*"]
	{zzPExact},
	{zzPSubsAny, zzPExact, zzPSubsAny}, // with an exact duplicate
	{zzPHTTP, zzPLoop6, zzPIP6b},
	{zzPExact, zzPExactPort, zzPShare},
	{zzPSubs, zzPDot},
	{zzPLocalAny, zzPLoop4},
	{zzPHTTPSubs, zzPOther, zzPAnyPort},
}

var zzMethodMenus = []zzMethodsAtom{
	{},
	{list: []string{"*"}, any: true},
	{list: []string{"PUT", "patch"}, set: []string{"PUT", "patch"}},
	{list: []string{"GET", "put", "DELETE", "*"}, any: true, set: []string{"GET", "PUT", "DELETE"}},
	{list: []string{"delete", "PURGE"}, set: []string{"DELETE", "PURGE"}},
}

var zzReqHdrMenus = []zzReqHdrsAtom{
	{},
	{list: []string{"*"}, asterisk: true},
	{list: []string{"*", "Authorization"}, asterisk: true, auth: true},
	{list: []string{"AUTHORIZATION", "*"}, asterisk: true, auth: true},
	{list: []string{"x_B", "x-a"}, names: []string{"x-a", "x_b"}}, // `_` sits between 'Z' and 'a': case folding must leave it alone
	{list: []string{"Authorization", "x-a"}, auth: true, names: []string{"x-a"}},
	// short names: the rendered allow-list "b,x-a" is as long as a quick-tier field line,
	// so that "the request's line has the length / shape of the configured list" is inside the bounds
	{list: []string{"x-a", "B"}, names: []string{"b", "x-a"}},
}

const zzShortReqHdrMenu = 6

var zzRespHdrMenus = []zzRespHdrsAtom{
	{},
	{list: []string{"*"}, asterisk: true},
	{list: []string{"x_R", "x-b"}, aceh: "x-b,x_r"},
	{list: []string{"Content-Type"}},
	{list: []string{"x-r", "*"}, asterisk: true},
}

var zzMaxAgeMenu = []zzMaxAgeAtom{
	{0, ""}, {-1, "0"}, {600, "600"}, {5, "5"}, {1, "1"}, {86400, "86400"}, // 5 is what browsers assume when the header is absent
}

// zzCfg is a drawn configuration together with its documented meaning.
type zzCfg struct {
	cfg      Config
	allowAll bool
	pats     []zzPat
	methods  zzMethodsAtom
	reqHdrs  zzReqHdrsAtom
	respHdrs zzRespHdrsAtom
	maxAge   zzMaxAgeAtom
}

// zzLimits bounds how many menu entries a harness draws from; a limit <= 1
// pins the list to the menu entry named by the corresponding fix field, so
// that each harness varies only what its property depends on.
type zzLimits struct {
	origins, methods, reqHdrs, respHdrs, maxAges             int
	fixOrigins, fixMethods, fixReqHdrs, fixRespHdrs, fixMaxAge int
	concreteStatus                                           bool // status 0 instead of a symbolic one
	fixedFlags                                               bool // all five switches false
}

func zzQuickLimits() zzLimits {
	if zzTier() >= 1 {
		return zzLimits{origins: 8, methods: 5, reqHdrs: 7, respHdrs: 5, maxAges: 6}
	}
	return zzLimits{origins: 4, methods: 3, reqHdrs: 5, respHdrs: 3, maxAges: 4}
}

func zzPick(n, limit, fix int) int {
	if limit <= 1 {
		return fix
	}
	if limit > n {
		limit = n
	}
	return zzChoose(limit)
}

// zzDrawCfg draws a configuration; it is not necessarily valid.
func zzDrawCfg(l zzLimits) *zzCfg {
	c := &zzCfg{}
	oi := zzPick(len(zzOriginMenus), l.origins, l.fixOrigins)
	if oi == 0 {
		c.allowAll = true
		c.cfg.Origins = []string{"*"}
	} else {
		c.pats = zzOriginMenus[oi]
		c.cfg.Origins = zzRaws(c.pats)
	}
	c.methods = zzMethodMenus[zzPick(len(zzMethodMenus), l.methods, l.fixMethods)]
	c.cfg.Methods = c.methods.list
	c.reqHdrs = zzReqHdrMenus[zzPick(len(zzReqHdrMenus), l.reqHdrs, l.fixReqHdrs)]
	c.cfg.RequestHeaders = c.reqHdrs.list
	c.respHdrs = zzRespHdrMenus[zzPick(len(zzRespHdrMenus), l.respHdrs, l.fixRespHdrs)]
	c.cfg.ResponseHeaders = c.respHdrs.list
	c.maxAge = zzMaxAgeMenu[zzPick(len(zzMaxAgeMenu), l.maxAges, l.fixMaxAge)]
	c.cfg.MaxAgeInSeconds = c.maxAge.v
	if !l.fixedFlags {
		c.cfg.Credentialed = zzBool()
		c.cfg.PrivateNetworkAccess = zzBool()
		c.cfg.PrivateNetworkAccessInNoCORSModeOnly = zzBool()
		c.cfg.DangerouslyTolerateInsecureOrigins = zzBool()
		c.cfg.DangerouslyTolerateSubdomainsOfPublicSuffixes = zzBool()
	}
	if !l.concreteStatus {
		c.cfg.PreflightSuccessStatus = zzInt()
	}
	return c
}

// zzDrawAccepted draws a configuration and keeps only the paths on which the
// library accepts it (the acceptance itself is judged by C04/C05).
func zzDrawAccepted(l zzLimits) (*zzCfg, *Middleware) {
	c := zzDrawCfg(l)
	m, err := NewMiddleware(c.cfg)
	zzAssume(err == nil)
	zzAssert(m != nil, "nil error with nil middleware")
	return c, m
}

func (c *zzCfg) okStatus() int {
	if c.cfg.PreflightSuccessStatus == 0 {
		return 204
	}
	return c.cfg.PreflightSuccessStatus
}

// originAllowed: the documented meaning of the Origins list for a raw Origin value.
func (c *zzCfg) originAllowed(o string) bool {
	return zzAllowedBy(c.pats, o)
}

func zzHasBracketHost(o string) bool {
	for i := 0; i+3 < len(o); i++ {
		if o[i] == ':' && o[i+1] == '/' && o[i+2] == '/' {
			return o[i+3] == '['
		}
	}
	return false
}
