package cors

// zzInvalidCfg draws an invalid configuration whose other fields are valid
// and differ from the scenarios' configurations.
func zzInvalidCfg(rich bool) *Config {
	c := &Config{
		Origins:         []string{"https://other.example"},
		Methods:         []string{"PURGE"},
		RequestHeaders:  []string{"x-other"},
		ResponseHeaders: []string{"x-other-r"},
		MaxAgeInSeconds: 30,
	}
	variant := 7
	if rich {
		c.Credentialed = zzBool()
		variant = zzChoose(9)
	}
	switch variant {
	case 0:
		c.Origins = nil
	case 8:
		// defective patterns listed after `*`
		c.Credentialed = false
		c.Origins = []string{"*", "https://bad.example/", "null"}
	case 1:
		c.Origins = []string{"https://other.example", "https://bad.example/"}
	case 2:
		c.Methods = []string{"PURGE", "CONNECT"}
	case 3:
		c.RequestHeaders = []string{"x-other", "Cookie"}
	case 4:
		c.ResponseHeaders = []string{"Set-Cookie"}
	case 5:
		v := zzInt()
		zzAssume(v < -1 || v > 86400)
		c.MaxAgeInSeconds = v
	case 6:
		v := zzInt()
		zzAssume(v != 0 && (v < 200 || v > 299))
		c.PreflightSuccessStatus = v
	default:
		c.PrivateNetworkAccess = true
		c.PrivateNetworkAccessInNoCORSModeOnly = true
		c.Origins = []string{"*"}
		c.Methods = []string{""}
	}
	return c
}

func zzSameCfg(a, b *Config) bool {
	if (a == nil) != (b == nil) {
		return false
	}
	if a == nil {
		return true
	}
	return zzEqStrs(a.Origins, b.Origins) && zzEqStrs(a.Methods, b.Methods) &&
		zzEqStrs(a.RequestHeaders, b.RequestHeaders) && zzEqStrs(a.ResponseHeaders, b.ResponseHeaders) &&
		(a.Origins == nil) == (b.Origins == nil) && (a.Methods == nil) == (b.Methods == nil) &&
		(a.RequestHeaders == nil) == (b.RequestHeaders == nil) && (a.ResponseHeaders == nil) == (b.ResponseHeaders == nil) &&
		a.Credentialed == b.Credentialed && a.MaxAgeInSeconds == b.MaxAgeInSeconds &&
		a.PreflightSuccessStatus == b.PreflightSuccessStatus &&
		a.PrivateNetworkAccess == b.PrivateNetworkAccess &&
		a.PrivateNetworkAccessInNoCORSModeOnly == b.PrivateNetworkAccessInNoCORSModeOnly &&
		a.DangerouslyTolerateInsecureOrigins == b.DangerouslyTolerateInsecureOrigins &&
		a.DangerouslyTolerateSubdomainsOfPublicSuffixes == b.DangerouslyTolerateSubdomainsOfPublicSuffixes
}

// zzDebugProbe observes debug mode through a preflight that fails at the
// method step: 403 with debug off, an ok status with debug on. Returns -1 on
// a passthrough middleware (the probe reaches the handler).
func zzDebugProbe(m *Middleware, allowed string) int {
	q := zzMkRequest("OPTIONS", []string{allowed}, []string{"ZZPROBE"}, nil, nil, true, true, false, false)
	_, resp := zzServe(m, q, nil, &zzHandler{})
	if resp.calls > 0 {
		return -1
	}
	if resp.status == 403 {
		return 0
	}
	return 1
}

// C08 — a rejected Reconfigure leaves the middleware exactly as it was.
func zzH_C08_api() {
	var s zzScen
	var m *Middleware
	// the product (prior state x request x invalid configuration) is explored
	// in full for the scenarios with few request paths; the byte-level
	// scenarios use one multi-violation configuration and a configured prior state
	s = zzDrawScenario(zzAllFocus)
	rich := s.focus == zzFLists || s.focus == zzFPNA || s.focus == zzFDispatch
	passthrough := rich && zzChoose(2) == 0
	m = s.m
	if passthrough {
		m = new(Middleware)
		m.SetDebug(s.debug)
	}
	before := m.Config()
	_, r1 := zzServe(m, s.q, nil, &zzHandler{})
	bad := zzInvalidCfg(rich)
	err := m.Reconfigure(bad)
	zzAssert(err != nil, "invalid configuration accepted by Reconfigure")
	if err == nil {
		return
	}
	zzReach("rejected")
	after := m.Config()
	zzAssert(zzSameCfg(before, after), "Config() changed after a rejected Reconfigure")
	_, r2 := zzServe(m, s.q, nil, &zzHandler{})
	zzAssert(zzSameResp(r1, r2), "response changed after a rejected Reconfigure")
	// debug mode as it was: observe through a failing preflight from an allowed origin
	if !passthrough && !s.c.allowAll && !s.c.methods.any && len(s.c.pats) > 0 && s.c.pats[0].raw == zzAllowedOrigin {
		want := 0
		if s.debug {
			want = 1
		}
		zzAssert(zzDebugProbe(m, zzAllowedOrigin) == want, "debug mode changed after a rejected Reconfigure")
		zzReach("debug-probed")
	}
	if passthrough {
		zzAssert(after == nil, "passthrough middleware has a configuration after a rejected Reconfigure")
		zzReach("passthrough")
	}
}
