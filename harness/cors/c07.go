package cors

// C07 — reconfiguration is atomic and race-free under concurrent traffic.
//
// What is decided (see DESIGN.md): (1) lock discipline on every explored path
// of ServeHTTP / Reconfigure / SetDebug / Config — the engine flags any read of
// a field of the shared Middleware without the read or write lock, any write
// without the write lock, any store into a configuration after it was
// published, any lock/unlock mismatch; (2) snapshot atomicity under symbolic
// interference: at every point where the request releases the lock or calls
// out (after each RUnlock/Unlock — injected by the engine's mutex model —,
// w.Header(), w.WriteHeader(), the wrapped handler) an environment performs an
// operation chosen by the solver. Given (1), any real interleaving is
// equivalent to one in which other goroutines' critical sections run at
// exactly these points.

type zzState struct {
	cfg   int // 0 passthrough, 1 configuration A, 2 configuration B
	debug bool
}

type zzEnvT struct {
	m      *Middleware
	active bool
	busy   bool
	budget int
	cur    zzState
	states []zzState // every state current at some instant since the request started
}

var zzEnv zzEnvT

// zzHookUnlock is called by the engine's mutex model right after every
// Unlock/RUnlock of a mutex that belongs to an object declared zzShared.
func zzHookUnlock() { zzInterfere() }

func zzCfgOf(i int) *Config {
	switch i {
	case 1:
		return zzCfgA()
	case 2:
		return zzCfgB()
	}
	return nil
}

func zzInterfere() {
	e := &zzEnv
	if !e.active || e.busy || e.budget == 0 {
		return
	}
	e.busy = true
	op := zzChoose(8)
	switch op {
	case 0:
	case 1:
		e.m.SetDebug(true)
		if e.cur.cfg != 0 {
			e.cur.debug = true
		}
	case 2:
		e.m.SetDebug(false)
		e.cur.debug = false
	case 3:
		zzAssert(e.m.Reconfigure(nil) == nil, "Reconfigure(nil) failed")
		e.cur = zzState{}
	case 4:
		zzAssert(e.m.Reconfigure(zzCfgA()) == nil, "Reconfigure(A) failed")
		e.cur.cfg = 1
	case 5:
		zzAssert(e.m.Reconfigure(zzCfgB()) == nil, "Reconfigure(B) failed")
		e.cur.cfg = 2
	case 6:
		zzAssert(e.m.Reconfigure(zzCfgInvalid()) != nil, "Reconfigure(invalid) succeeded")
	default:
		// Config() equals the normal form of the state current when it is called
		got := e.m.Config()
		var want *Config
		if e.cur.cfg != 0 {
			ref, err := NewMiddleware(*zzCfgOf(e.cur.cfg))
			zzAssert(err == nil, "reference configuration rejected")
			want = ref.Config()
		}
		zzAssert(zzSameCfg(got, want), "Config() under interference is not the normal form of a single state")
		zzReach("config-checked")
	}
	if op >= 1 && op <= 6 {
		e.budget--
		e.states = append(e.states, e.cur)
		zzReach("interfered")
	}
	e.busy = false
}

func zzC07Request() *zzRequest {
	origin := []string{zzAllowedOrigin}
	if zzChoose(2) == 1 {
		origin = []string{"https://x.b.c:81"} // allowed by B only
	}
	switch zzChoose(4) {
	case 0:
		return zzMkRequest("GET", origin, nil, nil, nil, true, false, false, false)
	case 1:
		return zzMkRequest("OPTIONS", origin, []string{"PUT"}, []string{"x-a"}, nil, true, true, true, false)
	case 2:
		return zzMkRequest("OPTIONS", origin, []string{"DELETE"}, []string{"x-b"}, []string{"true"}, true, true, true, true)
	}
	return zzMkRequest("OPTIONS", nil, nil, nil, nil, false, false, false, false)
}

func zzBuildState(st zzState) *Middleware {
	if st.cfg == 0 {
		return new(Middleware)
	}
	m, err := NewMiddleware(*zzCfgOf(st.cfg))
	zzAssert(err == nil && m != nil, "reference configuration rejected")
	m.SetDebug(st.debug)
	return m
}

func zzH_C07_api() {
	budget := 2
	if zzTier() >= 1 {
		budget = 3
	}
	init := zzState{cfg: zzChoose(3)}
	if init.cfg != 0 {
		init.debug = zzBool()
	}
	m := zzBuildState(init)
	zzShared(m)
	q := zzC07Request()
	zzEnv = zzEnvT{m: m, active: true, budget: budget, cur: init, states: []zzState{init}}
	w := zzNewWriter()
	w.onHeader = zzInterfere
	h := &zzHandler{status: 202, onCall: zzInterfere}
	m.Wrap(h).ServeHTTP(w, q.r)
	zzEnv.active = false
	got := zzResp{status: w.status, h: w.h, calls: h.calls}
	// the response must be the response of one single state of the window
	match := false
	for _, st := range zzEnv.states {
		ref := zzBuildState(st)
		q2 := zzMkRequest(q.method, q.origin, q.acrm, q.acrh, q.acrpn, q.hasOrigin, q.hasACRM, q.hasACRH, q.hasACRPN)
		_, exp := zzServe(ref, q2, nil, &zzHandler{status: 202})
		if zzSameResp(got, exp) {
			match = true
		}
	}
	zzAssert(match, "the response mixes two (configuration, debug) states: it equals the response of no single state current during the request")
	// and afterwards the middleware is in the last state
	final := zzEnv.cur
	zzAssert((m.Config() != nil) == (final.cfg != 0), "final state differs from the last reconfiguration")
	zzReach("served")
}
