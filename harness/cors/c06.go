package cors

// C06 — Config() round-trips: Reconfigure(Config()) is a no-op and constructors agree.
func zzH_C06_api() {
	s := zzDrawScenario(zzAllFocus)
	m1 := s.m
	if !s.c.allowAll {
		// the constructors read the caller's Config; they must not rewrite it
		// (the same value is handed to Reconfigure below, slices shared)
		zzAssert(zzEqStrs(s.c.cfg.Origins, zzRaws(s.c.pats)), "building a middleware changed the Origins slice of the caller's Config")
	}
	c1 := m1.Config()
	zzAssert(c1 != nil, "configured middleware returned a nil Config")
	if c1 == nil {
		return
	}
	m2, err := NewMiddleware(*c1)
	zzAssert(err == nil && m2 != nil, "the Config that Config() returns is rejected by NewMiddleware")
	m3 := new(Middleware)
	cc := s.c.cfg
	zzAssert(m3.Reconfigure(&cc) == nil, "zero value rejected a Config that NewMiddleware accepts")
	if err != nil {
		return
	}
	if s.debug {
		m2.SetDebug(true)
		m3.SetDebug(true)
	}
	// idempotence after one trip
	c2 := m2.Config()
	zzAssert(zzSameCfg(c1, c2), "Config() still changes after one round trip")
	_, r1 := zzServe(m1, s.q, nil, &zzHandler{})
	_, r2 := zzServe(m2, s.q, nil, &zzHandler{})
	_, r3 := zzServe(m3, s.q, nil, &zzHandler{})
	zzAssert(zzSameResp(r1, r2), "middleware rebuilt from Config() answers differently")
	zzAssert(zzSameResp(r1, r3), "zero value + Reconfigure answers differently from NewMiddleware")
	// m.Reconfigure(m.Config()) is a no-op
	zzAssert(m1.Reconfigure(m1.Config()) == nil, "m.Reconfigure(m.Config()) failed")
	_, r4 := zzServe(m1, s.q, nil, &zzHandler{})
	zzAssert(zzSameResp(r1, r4), "m.Reconfigure(m.Config()) changed a response")
	zzReach("roundtrip")
}
