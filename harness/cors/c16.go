package cors

// C16 — with debug off, preflight responses disclose nothing beyond what was asked.
func zzH_C16_api() {
	s := zzDrawScenario([]int{zzFOrigin, zzFMethod, zzFHeaders, zzFPNA, zzFLists, zzFSteps, zzFShortHdrs})
	zzAssume(!s.debug)
	q := s.q
	zzAssume(q.isPreflight())
	_, resp := zzServe(s.m, q, nil, &zzHandler{})
	h := resp.h
	_, hasACAO := h[zzACAO]
	if resp.status == 403 || !hasACAO {
		// failure: same status whatever the reason, no Access-Control-* header at all
		zzAssert(resp.status == 403, "failed preflight with a status other than 403")
		for _, k := range zzCORSResponseNames {
			_, has := h[k]
			zzAssert(!has, "failed preflight discloses an Access-Control-* header")
		}
		zzReach("failed")
		return
	}
	zzReach("succeeded")
	c := s.c
	for _, k := range zzCORSResponseNames {
		vals, has := h[k]
		if !has {
			continue
		}
		for _, v := range vals {
			ok := v == "*" || v == "true"
			if k == zzACMA {
				ok = ok || v == c.maxAge.acma
			}
			if k == zzACAO {
				ok = ok || (len(q.origin) > 0 && v == q.origin[0])
			}
			if k == zzACAM {
				ok = ok || (len(q.acrm) > 0 && v == q.acrm[0])
			}
			if k == zzACAH {
				// the documented `*,authorization` case: anonymous, `*` and Authorization listed
				ok = ok || (v == "*,authorization" && !c.cfg.Credentialed && c.reqHdrs.asterisk && c.reqHdrs.auth)
				for _, line := range q.acrh {
					ok = ok || v == line
				}
			}
			zzAssert(ok, "successful preflight response carries a value the request did not supply")
		}
	}
}
