package cors

import "net/http"

// C11 — preflights are answered by the middleware alone; everything else
// reaches the wrapped handler once, intact; a passthrough middleware is the identity.
func zzH_C11_api() {
	passthrough := zzChoose(3) // 0 configured, 1 zero value, 2 Reconfigure(nil)
	var s zzScen
	var m *Middleware
	if passthrough == 0 {
		s = zzDrawScenario(zzAllFocus)
		m = s.m
	} else {
		s = zzDrawScenario([]int{zzFDispatch, zzFOrigin})
		if passthrough == 1 {
			m = new(Middleware)
		} else {
			m = s.m
			zzAssert(m.Reconfigure(nil) == nil, "Reconfigure(nil) failed")
		}
	}
	q := s.q
	// pre-set response headers and the inner handler's own output
	// the handler's output and the pre-set headers are symbolic in the
	// dispatch scenario and pinned (all present) in the others
	preset := http.Header{}
	presetVary := true
	inner := &zzHandler{status: 201, setVary: true, setACAO: true}
	if s.focus == zzFDispatch {
		presetVary = zzBool()
		inner = &zzHandler{status: zzInt(), setVary: zzBool(), setACAO: zzBool()}
	}
	if presetVary {
		preset[zzVary] = []string{zzPreVary}
	}
	preset["X-Pre"] = []string{"1", "2"}
	w := zzNewWriter()
	for k, v := range preset {
		w.h[k] = v
	}
	m.Wrap(inner).ServeHTTP(w, q.r)

	preflight := q.isPreflight()
	if passthrough != 0 {
		zzAssert(inner.calls == 1, "passthrough middleware did not invoke the handler exactly once")
		zzAssert(inner.gotW == http.ResponseWriter(w) && inner.gotR == q.r, "passthrough middleware replaced writer or request")
		_, has := w.h[zzACAO]
		zzAssert(!has, "passthrough middleware set a CORS header")
		want := 0
		if presetVary {
			want++
		}
		if inner.setVary {
			want++
		}
		zzAssert(len(w.h[zzVary]) == want, "passthrough middleware touched Vary")
		zzAssert(w.status == inner.status, "passthrough middleware changed the status")
		zzReach("passthrough")
		return
	}
	if preflight {
		zzAssert(inner.calls == 0, "wrapped handler invoked for a CORS-preflight request")
		zzAssert(w.bodyLen == 0, "preflight response has a body")
		zzAssert(w.nWrites == 1, "preflight: WriteHeader not called exactly once")
		zzReach("preflight")
	} else {
		zzAssert(inner.calls == 1, "non-preflight request did not reach the handler exactly once")
		zzAssert(inner.gotW == http.ResponseWriter(w) && inner.gotR == q.r, "handler got a different writer or request")
		zzAssert(w.status == inner.status, "handler status altered")
		zzReach("delegated")
	}
	// headers set earlier in the chain survive
	zzAssert(zzEqStrs(w.h["X-Pre"], []string{"1", "2"}), "pre-set header altered")
	vary := w.h[zzVary]
	if presetVary {
		zzAssert(len(vary) >= 1 && vary[0] == zzPreVary, "pre-existing Vary value lost")
	}
	if !preflight && inner.setVary {
		zzAssert(len(vary) >= 1 && vary[len(vary)-1] == "X-Inner", "handler's Vary value lost")
	}
	if !preflight && inner.setACAO {
		zzAssert(zzEqStrs(w.h["X-Inner-Header"], []string{"inner"}), "handler's header altered")
	}
	// the middleware only ever adds to Vary and sets ACAO/ACAC/ACEH on non-preflight responses
	if !preflight {
		for k := range w.h {
			ok := k == zzVary || k == zzACAO || k == zzACAC || k == zzACEH || k == "X-Pre" || k == "X-Inner-Header"
			zzAssert(ok, "unexpected header on a non-preflight response")
		}
	}
}
