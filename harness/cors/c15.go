package cors

func zzUpperASCII(s string) string {
	b := []byte(s)
	for i := range b {
		if 'a' <= b[i] && b[i] <= 'z' {
			b[i] -= 32
		}
	}
	return string(b)
}

func zzReverse(l []string) []string {
	out := make([]string, len(l))
	for i, s := range l {
		out[len(l)-1-i] = s
	}
	return out
}

func zzRotateDup(l []string) []string {
	if len(l) == 0 {
		return l
	}
	out := append([]string{}, l[1:]...)
	out = append(out, l[0], l[0])
	return out
}

func zzDoubleEach(l []string) []string {
	var out []string
	for _, s := range l {
		out = append(out, s, s)
	}
	if l != nil && out == nil {
		out = []string{}
	}
	return out
}

func zzMapStrs(l []string, f func(string) string) []string {
	if l == nil {
		return nil
	}
	out := make([]string, len(l))
	for i, s := range l {
		out[i] = f(s)
	}
	return out
}

// zzRespellMethod changes the spelling of methods that Fetch normalises.
func zzRespellMethod(m string) string {
	switch zzUpperASCII(m) {
	case "DELETE", "GET", "HEAD", "OPTIONS", "POST", "PUT":
		if m == zzUpperASCII(m) {
			return zzLowerASCII(m)
		}
		return zzUpperASCII(m)
	}
	return m
}

// zzTwin builds a configuration that differs from c only in ways C15 declares irrelevant.
func zzTwin(c Config, kind int) Config {
	t := c
	switch kind {
	case 0:
		t.Origins, t.Methods = zzReverse(c.Origins), zzReverse(c.Methods)
		t.RequestHeaders, t.ResponseHeaders = zzReverse(c.RequestHeaders), zzReverse(c.ResponseHeaders)
	case 1:
		t.Origins, t.Methods = zzRotateDup(c.Origins), zzRotateDup(c.Methods)
		t.RequestHeaders, t.ResponseHeaders = zzRotateDup(c.RequestHeaders), zzRotateDup(c.ResponseHeaders)
	case 2:
		t.RequestHeaders, t.ResponseHeaders = zzMapStrs(c.RequestHeaders, zzUpperASCII), zzMapStrs(c.ResponseHeaders, zzUpperASCII)
		t.Methods = zzMapStrs(c.Methods, zzRespellMethod)
	case 3:
		t.RequestHeaders, t.ResponseHeaders = zzMapStrs(c.RequestHeaders, zzLowerASCII), zzMapStrs(c.ResponseHeaders, zzLowerASCII)
		t.Methods = append(append([]string{"GET"}, c.Methods...), "head", "POST")
		t.ResponseHeaders = append(append([]string{"Content-Type"}, t.ResponseHeaders...), "expires")
	case 4:
		t.Origins, t.Methods = zzDoubleEach(c.Origins), zzDoubleEach(c.Methods)
		t.RequestHeaders, t.ResponseHeaders = zzDoubleEach(c.RequestHeaders), zzDoubleEach(c.ResponseHeaders)
	default:
		t.Origins, t.Methods = zzReverse(c.Origins), zzMapStrs(zzReverse(c.Methods), zzRespellMethod)
		t.RequestHeaders, t.ResponseHeaders = zzMapStrs(zzReverse(c.RequestHeaders), zzUpperASCII), zzMapStrs(zzReverse(c.ResponseHeaders), zzUpperASCII)
	}
	return t
}

// C15 — configuration lists are sets.
func zzH_C15_api() {
	s := zzDrawScenario(zzAllFocus)
	kind := s.zzVariant(6, []int{0, 1}, []int{5}, []int{1, 5})
	tc := zzTwin(s.c.cfg, kind)
	m2, err := NewMiddleware(tc)
	zzAssert(err == nil && m2 != nil, "twin configuration (reordered / duplicated / respelled lists) rejected")
	if err != nil {
		return
	}
	if s.debug {
		m2.SetDebug(true)
	}
	_, r1 := zzServe(s.m, s.q, nil, &zzHandler{})
	_, r2 := zzServe(m2, s.q, nil, &zzHandler{})
	zzAssert(zzSameResp(r1, r2), "twin configuration answers differently")
	zzReach("twin")
}
