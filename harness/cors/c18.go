package cors

// C18 — per-request allocations do not grow with attacker-controlled sizes.
// What is decided is a statement about allocation *sites* of the SSA form
// (make, new, closures, boxing, append growth, string building, Header.Add/Set,
// modelled allocating callees), not the runtime's allocator: within one class
// of paths that take the same branches in package cors, the number of
// allocation-site events must not depend on how the scanning/parsing loops of
// the internal packages ran; and it must stay below a small constant.
func zzH_C18_api() {
	s := zzDrawScenario([]int{zzFOrigin, zzFMethod, zzFHeaders, zzFPNA, zzFSteps})
	r := s.q.r
	// sizes beyond the scenarios' byte bounds, where they are cheap to explore:
	// a method of up to 9 bytes (past the first growth step of a byte buffer),
	// and an Origin / method of any length between 400 bytes and 1 MiB
	if zzChoose(2) == 1 {
		switch s.focus {
		case zzFMethod:
			if zzChoose(2) == 1 {
				v := zzString(9)
				zzAssume(len(v) > 6)
				r.Header[zzACRM][0] = v
			} else {
				r.Header[zzACRM][0] = zzLong()
			}
			zzReach("long-method")
		case zzFOrigin:
			zzAssume(len(r.Header[zzOrig]) > 0)
			r.Header[zzOrig][0] = zzLong()
			zzReach("long-origin")
		default:
			zzAssume(false)
		}
	}
	w := zzNewWriter()
	h := s.m.Wrap(&zzHandler{})
	zzAllocStart()
	h.ServeHTTP(w, r)
	zzAllocStop(16) // the engine reports a count above the limit, and unequal counts within a branch class
	zzReach("counted")
}
