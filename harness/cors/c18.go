package cors

// C18 — per-request allocations do not grow with attacker-controlled sizes.
// What is decided is a statement about allocation *sites* of the SSA form
// (make, new, closures, boxing, append growth, string building, Header.Add/Set,
// modelled allocating callees), not the runtime's allocator: within one class
// of paths that take the same branches in package cors, the number of
// allocation-site events must not depend on how the scanning/parsing loops of
// the internal packages ran; and it must stay below a small constant.
func zzH_C18_api() {
	s := zzDrawScenario([]int{zzFOrigin, zzFMethod, zzFHeaders, zzFPNA, zzFSteps})
	w := zzNewWriter()
	h := s.m.Wrap(&zzHandler{})
	zzAllocStart()
	h.ServeHTTP(w, s.q.r)
	zzAllocStop(16) // the engine reports a count above the limit, and unequal counts within a branch class
	zzReach("counted")
}
