package cors

// C03 — CORS response headers are well-formed and never over-grant.

// zzC03Assert checks every clause of C03 on one recorded response.
func zzC03Assert(c *zzCfg, q *zzRequest, resp zzResp) {
	h := resp.h
	preflight := q.isPreflight()
	acao, hasACAO := h[zzACAO]
	acac, hasACAC := h[zzACAC]
	zzAssert(len(acao) <= 1, "more than one Access-Control-Allow-Origin value")
	if hasACAO {
		zzAssert(len(acao) == 1, "Access-Control-Allow-Origin present without a value")
	}
	echoed := false
	if hasACAO && len(acao) == 1 {
		first := ""
		if len(q.origin) > 0 {
			first = q.origin[0]
		}
		if acao[0] == "*" && (first != "*" || c.allowAll) {
			zzAssert(c.allowAll && !c.cfg.Credentialed, "ACAO * outside a non-credentialed allow-all configuration")
			zzAssert(!hasACAC, "ACAC next to ACAO *")
			zzReach("acao-star")
		} else {
			zzAssert(len(q.origin) > 0, "ACAO echoed without an Origin value")
			zzAssert(acao[0] == first, "ACAO is not the byte-exact first Origin value")
			zzAssert(!c.allowAll && c.originAllowed(first), "ACAO echoes an origin that no listed pattern denotes")
			echoed = true
			zzReach("acao-echo")
		}
	}
	if hasACAC {
		zzAssert(len(acac) == 1 && acac[0] == "true", "ACAC other than the single value true")
		zzAssert(echoed, "ACAC without an echoed allowed origin")
		zzAssert(c.cfg.Credentialed, "ACAC although credentialed access is disabled")
		zzReach("acac")
	}
	if !hasACAO {
		for _, k := range zzCORSResponseNames {
			_, has := h[k]
			zzAssert(!has, "Access-Control-* header without an allowed origin")
		}
		zzReach("no-acao")
	}
	_, hasACAM := h[zzACAM]
	_, hasACAH := h[zzACAH]
	_, hasACAPN := h[zzACAPN]
	acma, hasACMA := h[zzACMA]
	aceh, hasACEH := h[zzACEH]
	if !preflight {
		zzAssert(!hasACAM && !hasACAH && !hasACAPN && !hasACMA, "preflight-only header on a non-preflight response")
		if hasACEH {
			want := c.respHdrs.aceh
			if c.respHdrs.asterisk {
				want = "*"
			}
			zzAssert(len(aceh) == 1 && aceh[0] == want && want != "", "Expose-Headers differs from the configured value")
			zzReach("aceh")
		}
	} else {
		zzAssert(!hasACEH, "Expose-Headers on a preflight response")
		if hasACMA {
			zzAssert(len(acma) == 1 && acma[0] == c.maxAge.acma && c.maxAge.acma != "", "Max-Age differs from the configured value")
			zzReach("acma")
		}
		zzReach("preflight")
	}
}

// zzH_C03_api: every scenario, both debug modes where the scenario makes it symbolic.
func zzH_C03_api() {
	s := zzDrawScenario(append(zzAllFocus, zzFShortHdrs))
	_, resp := zzServe(s.m, s.q, nil, &zzHandler{})
	zzC03Assert(s.c, s.q, resp)
}
