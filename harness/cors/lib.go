package cors

// Shared harness material for the API-level harnesses (package cors).
// Everything here is ordinary Go: it is executed symbolically by the engine
// and natively when a counterexample is replayed.

import "net/http"

const (
	zzACAO  = "Access-Control-Allow-Origin"
	zzACAC  = "Access-Control-Allow-Credentials"
	zzACAM  = "Access-Control-Allow-Methods"
	zzACAH  = "Access-Control-Allow-Headers"
	zzACAPN = "Access-Control-Allow-Private-Network"
	zzACMA  = "Access-Control-Max-Age"
	zzACEH  = "Access-Control-Expose-Headers"
	zzVary  = "Vary"
	zzOrig  = "Origin"
	zzACRM  = "Access-Control-Request-Method"
	zzACRH  = "Access-Control-Request-Headers"
	zzACRPN = "Access-Control-Request-Private-Network"
)

var zzCORSResponseNames = []string{zzACAO, zzACAC, zzACAM, zzACAH, zzACAPN, zzACMA, zzACEH}

// ---------------------------------------------------------------- writer / handler

type zzWriter struct {
	h        http.Header
	status   int // first status passed to WriteHeader, 0 if none
	nWrites  int
	bodyLen  int
	onHeader func() // interference hook (C07)
}

func (w *zzWriter) Header() http.Header {
	if w.onHeader != nil {
		w.onHeader()
	}
	return w.h
}

func (w *zzWriter) Write(b []byte) (int, error) {
	w.bodyLen += len(b)
	return len(b), nil
}

func (w *zzWriter) WriteHeader(s int) {
	if w.onHeader != nil {
		w.onHeader()
	}
	w.nWrites++
	if w.status == 0 {
		w.status = s
	}
}

func zzNewWriter() *zzWriter { return &zzWriter{h: http.Header{}} }

type zzHandler struct {
	calls   int
	gotW    http.ResponseWriter
	gotR    *http.Request
	status  int      // status the handler writes (0: none)
	setVary bool     // handler appends its own Vary value
	setACAO bool     // handler sets a CORS header itself
	onCall  func()   // interference hook
	during  func(w http.ResponseWriter, r *http.Request)
}

func (h *zzHandler) ServeHTTP(w http.ResponseWriter, r *http.Request) {
	h.calls++
	h.gotW, h.gotR = w, r
	if h.onCall != nil {
		h.onCall()
	}
	if h.during != nil {
		h.during(w, r)
	}
	if h.setVary {
		w.Header().Add(zzVary, "X-Inner")
	}
	if h.setACAO {
		w.Header().Set("X-Inner-Header", "inner")
	}
	if h.status != 0 {
		w.WriteHeader(h.status)
	}
}

// ---------------------------------------------------------------- requests

// zzReqShape bounds the request space REQ(tier).
type zzReqShape struct {
	maxMethod int
	maxOrigin int
	maxACRM   int
	maxACRH   int // bytes per line
	maxLines  int
	maxACRPN  int
	originMultiplicity bool // allow 0 values / 2 values
	fixedMethod string     // if non-empty, method is this constant
}

func zzQuickShape() zzReqShape {
	if zzTier() >= 1 {
		return zzReqShape{maxMethod: 7, maxOrigin: 16, maxACRM: 6, maxACRH: 6, maxLines: 2, maxACRPN: 5, originMultiplicity: true}
	}
	return zzReqShape{maxMethod: 7, maxOrigin: 12, maxACRM: 6, maxACRH: 5, maxLines: 2, maxACRPN: 5, originMultiplicity: true}
}

type zzRequest struct {
	r      *http.Request
	method string
	origin []string // nil: header absent
	hasOrigin bool
	acrm   []string
	hasACRM bool
	acrh   []string
	hasACRH bool
	acrpn  []string
	hasACRPN bool
}

// zzValues draws a header's presence and value list.
// kind: 0 absent, 1 one value, 2 present with zero values, 3 two values.
func zzValues(maxLen int, multi bool) (vals []string, present bool) {
	n := 2
	if multi {
		n = 4
	}
	switch zzChoose(n) {
	case 0:
		return nil, false
	case 1:
		return []string{zzString(maxLen)}, true
	case 2:
		return []string{}, true
	default:
		return []string{zzString(maxLen), zzString(maxLen)}, true
	}
}

func zzDrawRequest(sh zzReqShape) *zzRequest {
	q := &zzRequest{}
	if sh.fixedMethod != "" {
		q.method = sh.fixedMethod
	} else {
		q.method = zzString(sh.maxMethod)
	}
	hdr := http.Header{}
	q.origin, q.hasOrigin = zzValues(sh.maxOrigin, sh.originMultiplicity)
	if q.hasOrigin {
		hdr[zzOrig] = q.origin
	}
	q.acrm, q.hasACRM = zzValues(sh.maxACRM, false)
	if q.hasACRM {
		hdr[zzACRM] = q.acrm
	}
	switch zzChoose(sh.maxLines + 1) {
	case 0:
	case 1:
		q.acrh, q.hasACRH = []string{zzString(sh.maxACRH)}, true
	case 2:
		q.acrh, q.hasACRH = []string{zzString(sh.maxACRH), zzString(sh.maxACRH)}, true
	default:
		q.acrh, q.hasACRH = []string{zzString(sh.maxACRH), zzString(sh.maxACRH), zzString(sh.maxACRH)}, true
	}
	if q.hasACRH {
		hdr[zzACRH] = q.acrh
	}
	q.acrpn, q.hasACRPN = zzValues(sh.maxACRPN, false)
	if q.hasACRPN {
		hdr[zzACRPN] = q.acrpn
	}
	q.r = &http.Request{Method: q.method, Header: hdr}
	return q
}

func (q *zzRequest) isPreflight() bool {
	return q.method == "OPTIONS" && len(q.origin) > 0 && len(q.acrm) > 0
}

// zzResp is a recorded response.
type zzResp struct {
	status int
	h      http.Header
	calls  int
}

func zzServe(m *Middleware, q *zzRequest, preset http.Header, h *zzHandler) (*zzWriter, zzResp) {
	w := zzNewWriter()
	for k, v := range preset {
		w.h[k] = v
	}
	if h == nil {
		h = &zzHandler{}
	}
	m.Wrap(h).ServeHTTP(w, q.r)
	return w, zzResp{status: w.status, h: w.h, calls: h.calls}
}

func zzEqStrs(a, b []string) bool {
	if len(a) != len(b) {
		return false
	}
	for i := range a {
		if a[i] != b[i] {
			return false
		}
	}
	return true
}

// zzPreVary: the Vary value set earlier in the chain. It contains "Origin" as a
// substring without naming the Origin header, so that anything that inspects
// pre-existing Vary values other than by field name shows.
const zzPreVary = "X-Original-Host"

var zzAllNames = []string{zzACAO, zzACAC, zzACAM, zzACAH, zzACAPN, zzACMA, zzACEH, zzVary, "X-Inner-Header", "X-Pre"}

// zzSameResp compares two responses (status, handler invocations and every
// header the harnesses ever see).
func zzSameResp(a, b zzResp) bool {
	if a.status != b.status || a.calls != b.calls {
		return false
	}
	for _, k := range zzAllNames {
		va, oka := a.h[k]
		vb, okb := b.h[k]
		if oka != okb || !zzEqStrs(va, vb) {
			return false
		}
	}
	return len(a.h) == len(b.h)
}

// ---------------------------------------------------------------- origin patterns and their documented meaning

// zzPat is an origin-pattern atom with its meaning spelled out by hand from
// the documentation (not derived from the parser under test).
type zzPat struct {
	raw      string
	scheme   string
	host     string // without any leading "*."
	subs     bool   // arbitrary subdomains
	port     int    // 0: none; -1: any; else fixed
	insecure bool   // scheme not https and host neither localhost nor loopback IP
	psl      bool   // *.<public suffix>
}

var (
	zzPExact     = zzPat{raw: "https://a.b", scheme: "https", host: "a.b"}
	zzPExactPort = zzPat{raw: "https://a.b:8443", scheme: "https", host: "a.b", port: 8443}
	zzPSubs      = zzPat{raw: "https://*.a.b", scheme: "https", host: "a.b", subs: true}
	zzPSubsAny   = zzPat{raw: "https://*.a.b:*", scheme: "https", host: "a.b", subs: true, port: -1}
	zzPHTTP      = zzPat{raw: "http://a.b", scheme: "http", host: "a.b", insecure: true}
	zzPHTTPSubs  = zzPat{raw: "http://*.a.b", scheme: "http", host: "a.b", subs: true, insecure: true}
	zzPLocalAny  = zzPat{raw: "http://localhost:*", scheme: "http", host: "localhost", port: -1}
	zzPLoop4     = zzPat{raw: "http://127.0.0.1:9090", scheme: "http", host: "127.0.0.1", port: 9090}
	zzPLoop6     = zzPat{raw: "http://[::1]:9090", scheme: "http", host: "::1", port: 9090}
	zzPIP6b      = zzPat{raw: "http://[1::1]:9090", scheme: "http", host: "1::1", port: 9090, insecure: true} // shares the byte suffix "::1" with the loopback address
	zzPOther     = zzPat{raw: "zz://c", scheme: "zz", host: "c", insecure: true}
	zzPShare     = zzPat{raw: "https://xa.b", scheme: "https", host: "xa.b"}
	zzPDot       = zzPat{raw: "https://a.b.", scheme: "https", host: "a.b."}
	zzPCom       = zzPat{raw: "https://*.com", scheme: "https", host: "com", subs: true, psl: true}
	zzPComDot    = zzPat{raw: "https://*.com.", scheme: "https", host: "com.", subs: true, psl: true}
	zzPCoUkAny   = zzPat{raw: "https://*.co.uk:*", scheme: "https", host: "co.uk", subs: true, port: -1, psl: true}
	zzPAnyPort   = zzPat{raw: "https://a.b:*", scheme: "https", host: "a.b", port: -1}
)

func zzIsDigit(c byte) bool    { return '0' <= c && c <= '9' }
func zzIsLabelByte(c byte) bool {
	return ('a' <= c && c <= 'z') || zzIsDigit(c) || c == '-' || c == '_'
}

// zzValidPort: s is a decimal in 1..65535 without leading zero.
func zzValidPort(s string) bool {
	if len(s) == 0 || len(s) > 5 || s[0] == '0' {
		return false
	}
	v := 0
	for i := 0; i < len(s); i++ {
		if !zzIsDigit(s[i]) {
			return false
		}
		v = v*10 + int(s[i]-'0')
	}
	return v <= 65535
}

func zzItoa(v int) string {
	if v == 0 {
		return "0"
	}
	var buf [8]byte
	i := len(buf)
	for v > 0 {
		i--
		buf[i] = byte('0' + v%10)
		v /= 10
	}
	return string(buf[i:])
}

// zzSubPrefixOK: x is one or more non-empty labels followed by nothing
// (the caller has already stripped ".base"): label bytes separated by single
// dots, not starting or ending with a dot.
func zzSubPrefixOK(x string) bool {
	if len(x) == 0 || x[0] == '.' || x[len(x)-1] == '.' {
		return false
	}
	for i := 0; i < len(x); i++ {
		c := x[i]
		if c == '.' {
			if x[i-1] == '.' {
				return false
			}
			continue
		}
		if !zzIsLabelByte(c) {
			return false
		}
	}
	return true
}

// zzSplitHostPort splits what follows "scheme://" into host and port part,
// reading the host leniently as the documentation of the request-side parser
// announces: the bytes between brackets are the host, whatever they are.
func zzSplitHostPort(rest string) (host, portPart string, ok bool) {
	if len(rest) > 0 && rest[0] == '[' {
		k := -1
		for i := 1; i < len(rest); i++ {
			if rest[i] == ']' {
				k = i
				break
			}
		}
		if k < 0 {
			return "", "", false
		}
		return rest[1:k], rest[k+1:], true
	}
	for i := 0; i < len(rest); i++ {
		if rest[i] == ':' {
			return rest[:i], rest[i:], true
		}
	}
	return rest, "", true
}

// zzDenotes states, from the documentation, whether pattern p denotes the
// serialized origin o ("scheme://host[:port]").
func zzDenotes(p zzPat, o string) bool {
	pre := p.scheme + "://"
	if len(o) < len(pre) || o[:len(pre)] != pre {
		return false
	}
	hostPart, portPart, ok := zzSplitHostPort(o[len(pre):])
	if !ok {
		return false
	}
	switch {
	case p.port == 0:
		if portPart != "" {
			return false
		}
	case p.port > 0:
		if portPart != ":"+zzItoa(p.port) {
			return false
		}
	default: // any port, possibly none
		if portPart != "" && (portPart[0] != ':' || !zzValidPort(portPart[1:])) {
			return false
		}
	}
	if !p.subs {
		return hostPart == p.host
	}
	suf := "." + p.host
	if len(hostPart) <= len(suf) || hostPart[len(hostPart)-len(suf):] != suf {
		return false
	}
	if len(o) > len(pre) && o[len(pre)] == '[' {
		// The request-side parser is documented as lenient: whatever stands
		// between brackets is taken as the host. No browser emits such an
		// origin for a domain, so the stricter reading is not judged.
		return true
	}
	return zzSubPrefixOK(hostPart[:len(hostPart)-len(suf)])
}

func zzAllowedBy(pats []zzPat, o string) bool {
	for _, p := range pats {
		if zzDenotes(p, o) {
			return true
		}
	}
	return false
}

func zzRaws(pats []zzPat) []string {
	out := make([]string, len(pats))
	for i, p := range pats {
		out[i] = p.raw
	}
	return out
}
