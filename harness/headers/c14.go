package headers

import "github.com/jub0bs/cors/internal/util"

// Reference reading of C14, written from the property's statement.

func zzIsOWS(c byte) bool { return c == ' ' || c == '\t' }

// zzTrim1 strips at most one OWS byte per side; ok is false if more than one
// OWS byte pads a side of a non-empty element.
func zzTrim1(e string) (string, bool) {
	if len(e) > 0 && zzIsOWS(e[0]) {
		e = e[1:]
	}
	if len(e) > 0 && zzIsOWS(e[len(e)-1]) {
		e = e[:len(e)-1]
	}
	if len(e) > 0 && (zzIsOWS(e[0]) || zzIsOWS(e[len(e)-1])) {
		return e, false
	}
	return e, true
}

// zzIndex: position of name in the sorted list, or -1.
func zzIndex(sorted []string, name string) int {
	for i, s := range sorted {
		if s == name {
			return i
		}
	}
	return -1
}

// zzRefCheck: the lines, read in order as comma-separated lists, are approved
// iff every element carries at most one OWS byte per side, at most 16 elements
// are empty, and the non-empty elements are allowed names in strictly
// increasing position of the sorted set.
func zzRefCheck(sorted []string, lines []string) bool {
	last := -1
	empties := 0
	for _, line := range lines {
		start := 0
		for i := 0; i <= len(line); i++ {
			if i < len(line) && line[i] != ',' {
				continue
			}
			e, ok := zzTrim1(line[start:i])
			start = i + 1
			if !ok {
				return false
			}
			if e == "" {
				empties++
				if empties > 16 {
					return false
				}
				continue
			}
			k := zzIndex(sorted, e)
			if k < 0 || k <= last {
				return false
			}
			last = k
		}
	}
	return true
}

var zzSets = [][]string{
	{"a"},
	{"a", "ab", "b"},
	{"ab", "b"},
	{"a", "b", "c"},
	{"x-a", "x-b"},
	{"aaaa"},
}

func zzBuildSet(names []string) util.SortedSet {
	var set util.SortedSet
	// inserted in reverse to exercise the sort
	for i := len(names) - 1; i >= 0; i-- {
		set.Add(names[i])
	}
	return set
}

// zzH_C14_unit: Check == reference, for fully symbolic field lines.
// Shapes (set, number of lines, bytes per line) are chosen so that the scan
// window's edge (1+maxLen+1+1 bytes) lies inside the symbolic line.
func zzH_C14_unit() {
	type shape struct{ set, lines, bytes int }
	shapes := []shape{{0, 1, 6}, {1, 2, 4}, {3, 1, 5}, {2, 1, 5}}
	if zzTier() >= 1 {
		shapes = []shape{{0, 1, 7}, {0, 2, 5}, {1, 2, 5}, {1, 3, 4}, {2, 2, 5}, {3, 2, 5}, {4, 1, 7}, {5, 1, 7}, {4, 2, 5}}
	}
	sh := shapes[zzChoose(len(shapes))]
	names := zzSets[sh.set]
	set := zzBuildSet(names)
	lines := make([]string, sh.lines)
	for i := range lines {
		lines[i] = zzString(sh.bytes)
	}
	got := Check(set, lines)
	want := zzRefCheck(names, lines)
	zzAssert(got == want, "headers.Check disagrees with the documented reading of the field lines")
	if got {
		zzReach("approved")
	} else {
		zzReach("rejected")
	}
}

// zzH_C14_empties: the budget of 16 empty elements, across lines.
func zzH_C14_empties() {
	names := zzSets[1]
	set := zzBuildSet(names)
	total := zzChoose(21) // 0..20 leading commas
	nlines := zzChoose(3) + 1
	lines := make([]string, nlines)
	// distribute the commas over the lines: split points chosen by the solver
	a, b := 0, 0
	if nlines >= 2 {
		a = zzChoose(total + 1)
	}
	if nlines >= 3 {
		b = zzChoose(total - a + 1)
	}
	counts := []int{total, 0, 0}
	if nlines == 2 {
		counts = []int{a, total - a, 0}
	}
	if nlines == 3 {
		counts = []int{a, b, total - a - b}
	}
	for i := 0; i < nlines; i++ {
		s := ""
		for j := 0; j < counts[i]; j++ {
			s += ","
		}
		lines[i] = s
	}
	lines[nlines-1] += zzString(3)
	got := Check(set, lines)
	want := zzRefCheck(names, lines)
	zzAssert(got == want, "headers.Check disagrees with the documented empty-element budget")
	if total >= 17 {
		zzReach("over-budget")
	}
	zzReach("empties")
}

// zzH_C14_complete: every sorted unique subset of the allowed names, joined by
// commas, optionally padded by one OWS byte per side, with a few empty elements
// and split at element boundaries over up to three lines, is approved.
func zzH_C14_complete() {
	names := zzSets[zzChoose(len(zzSets))]
	set := zzBuildSet(names)
	var lines []string
	cur := ""
	first := true
	for _, n := range names {
		if !zzBool() { // subset chosen by the solver
			continue
		}
		// before each chosen name: optionally break the line, optionally add an empty element
		if !first {
			switch zzChoose(3) {
			case 0:
				cur += ","
			case 1:
				cur += ",,"
			default:
				lines = append(lines, cur)
				cur = ""
			}
		}
		first = false
		pad := zzChoose(4)
		if pad == 1 || pad == 3 {
			cur += " "
		}
		cur += n
		if pad == 2 || pad == 3 {
			cur += "\t"
		}
	}
	lines = append(lines, cur)
	zzAssume(len(lines) <= 3)
	zzAssert(Check(set, lines), "a browser-emitted (sorted, unique) list of allowed names was rejected")
	zzReach("complete")
}
