package headers

import "github.com/jub0bs/cors/internal/util"

// zzH_smoke_trim: TrimOWS never returns a string with leading/trailing OWS
// when it succeeds, and fails exactly when more than n OWS bytes pad a side.
func zzH_smoke_trim() {
	s := zzString(5)
	t, ok := TrimOWS(s, 1)
	if ok && len(t) > 0 {
		zzAssert(!isOWS(t[0]), "leading OWS left")
		zzAssert(!isOWS(t[len(t)-1]), "trailing OWS left")
		zzReach("trimmed")
	}
	if !ok {
		zzAssert(t == s, "failure returns input")
		zzReach("failed")
	}
}

func zzH_smoke_check() {
	var set util.SortedSet
	set.Add("ab")
	set.Add("b")
	line := zzString(4)
	ok := Check(set, []string{line})
	if line == "ab,b" {
		zzAssert(ok, "ab,b accepted")
		zzReach("accepted")
	}
	if line == "b,ab" {
		zzAssert(!ok, "b,ab rejected")
		zzReach("rejected")
	}
}
