package cfgerrors

import "errors"

type zzLeaf struct{ id int }

func (l *zzLeaf) Error() string { return "cors: leaf" }

type zzBuilder struct {
	leaves []error // expected left-to-right flattening
	budget int     // leaves still allowed
}

// node builds a join tree whose shape the solver chooses (by forking):
// errors.Join of 1-3 children, each nil, a leaf, or (depth permitting) a join.
func (b *zzBuilder) leaf() error {
	l := &zzLeaf{id: len(b.leaves)}
	b.leaves = append(b.leaves, l)
	b.budget--
	return l
}

func (b *zzBuilder) join(depth, maxKids int) error {
	k := zzChoose(maxKids) + 1
	children := make([]error, 0, k)
	for i := 0; i < k; i++ {
		kinds := 2
		if depth > 1 && b.budget > 1 {
			kinds = 3
		}
		if b.budget <= 0 {
			kinds = 1
		}
		switch zzChoose(kinds) {
		case 0:
			children = append(children, nil)
		case 1:
			children = append(children, b.leaf())
		default:
			children = append(children, b.join(depth-1, 2))
		}
	}
	return errors.Join(children...)
}

func (b *zzBuilder) node(depth int) error {
	switch zzChoose(5) {
	case 0:
		return b.leaf() // a bare leaf, not wrapped in any join
	case 1:
		return b.spine(depth + 2) // deep and narrow
	}
	return b.join(depth, 3) // shallow and wide
}

func (b *zzBuilder) nilOrLeaf() error {
	if zzChoose(2) == 0 {
		return nil
	}
	return b.leaf()
}

// spine builds a deep, narrow tree: every level is a join of one sub-join
// with an optional nil/leaf sibling on either side; the innermost level is a
// join of 1-2 nil/leaf children. Depth is what the wide generator cannot
// afford: flattening must recurse through every level and an early exit must
// propagate through all of them.
func (b *zzBuilder) spine(levels int) error {
	if levels <= 1 {
		if zzChoose(2) == 0 {
			return errors.Join(b.nilOrLeaf())
		}
		return errors.Join(b.nilOrLeaf(), b.nilOrLeaf())
	}
	var kids []error
	if zzChoose(2) == 1 {
		kids = append(kids, b.nilOrLeaf())
	}
	kids = append(kids, b.spine(levels-1))
	if zzChoose(2) == 1 {
		kids = append(kids, b.nilOrLeaf())
	}
	return errors.Join(kids...)
}

// C19 — All yields exactly the leaves, each once, in order, and honours early exit.
func zzH_C19_unit() {
	depth, budget := 2, 5
	if zzTier() >= 1 {
		depth, budget = 3, 6
	}
	b := &zzBuilder{budget: budget}
	err := b.node(depth)
	zzAssume(err != nil)
	want := b.leaves
	k := zzInt() // the consumer breaks after k yields (never, if k is out of range)
	// 1. the range-over-func form
	var got []error
	n := 0
	for e := range All(err) {
		got = append(got, e)
		n++
		if n == k {
			break
		}
	}
	exp := len(want)
	if k >= 1 && k < exp {
		exp = k
		zzReach("early-exit")
	} else {
		zzReach("exhausted")
	}
	zzAssert(len(got) == exp, "All yielded a wrong number of errors")
	for i := 0; i < len(got) && i < len(want); i++ {
		zzAssert(got[i] == want[i], "All yielded something other than the next leaf")
	}
	// 2. calling the iterator directly: yield must never be called again after it returned false
	stopped := false
	calls := 0
	All(err)(func(e error) bool {
		zzAssert(!stopped, "yield called again after it returned false")
		zzAssert(e != nil, "All yielded a nil error")
		_, isLeaf := e.(*zzLeaf)
		zzAssert(isLeaf, "All yielded a join node instead of a leaf")
		calls++
		if calls == k {
			stopped = true
			return false
		}
		return true
	})
	zzAssert(calls == exp, "direct iteration yielded a wrong number of errors")
	if len(want) >= 3 {
		zzReach("three-leaves")
	}
}
