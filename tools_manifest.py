#!/usr/bin/env python3
"""Regenerates /verif/MANIFEST.json from the table below (kept next to the engine's checks.go)."""
import json

props = [json.loads(l)['id'] for l in open('/verif/properties.jsonl')]

LEVEL = ("bounded symbolic execution of the real go/ssa form of /repo (regenerated on every run); every assertion of the "
         "harness and every panic site executed is an SMT obligation over all inputs within the stated bounds; unsat = holds "
         "within the bounds, sat = concrete counterexample replayed natively with go test -overlay before it is reported. "
         "A bounded claim, never a proof: nothing is claimed outside the bounds listed in the evidence.")
NOTE = ("trusted: the engine (/verif/engine: SSA interpreter, term rewriting, interval pre-filter cross-checked against the solver in selftest), "
        "z3 5.1 (primary) with z3 4.8.12 re-asking the deciding queries of every 8th path (every path, plus cvc5, in the thorough tier), "
        "go/ssa v0.29.0, the models/native thunks listed in the evidence's assumptions, hand-written reference oracles in /verif/harness")
TECH = "solver-based: bounded symbolic execution of go/ssa + SMT (z3/cvc5), native replay of counterexamples"

claimed = {
 'C01': '§4 C01', 'C07': '§4 C07', 'C17': '§4 C17', 'C18': '§4 C18', 'C02': '§4 C02', 'C04': '§4 C04', 'C05': '§4 C05', 'C12': '§4 C12', 'C13': '§4 C13', 'C15': '§4 C15', 'C14': '§4 C14', 'C19': '§4 C19',
 'C03': '§4 C03', 'C06': '§4 C06', 'C08': '§4 C08', 'C09': '§4 C09', 'C10': '§4 C10', 'C11': '§4 C11', 'C16': '§4 C16',
}
na = {}

checks = []
for p in props:
    if p in claimed:
        checks.append({
            "property_id": p,
            "quick_cmd": f"/verif/bin/gosym check {p} --tier quick",
            "thorough_cmd": f"/verif/bin/gosym check {p} --tier thorough",
            "evidence_file": f"/verif/evidence/{p}.json",
            "replay_cmd_template": f"/verif/bin/gosym replay {p} {{path}}",
            "engine": "gosym",
            "level_claimed": {"category": "other", "text": LEVEL, "design_ref": claimed[p]},
            "level_note": NOTE,
            "technique": TECH,
        })
m = {
 "version": 1,
 "setup_cmd": "cd /verif/engine && GOFLAGS=-mod=mod GOPROXY=off GOSUMDB=off GOTOOLCHAIN=local go build -o /verif/bin/gosym . && /verif/bin/gosym selftest",
 "hooks": {"guard": "verif", "enable": "no source hook is needed: harnesses enter through go/packages Overlay (symbolic run) and go test -overlay (native replay); /repo is never written by a check",
           "baseline_off_cmd": "cd /repo && go test -vet=off -count=1 ./...", "source_commits": [], "add_only": True},
 "engines": [{"name": "gosym", "path": "/verif/engine", "serves_properties": sorted(claimed), "kind_free_text": "own symbolic executor for go/ssa (path forking by re-execution, if-conversion of pure regions, SMT-LIB2 over pipes to z3/cvc5, native replay)"}],
 "checks": checks,
 "notes": "Quick tier measured on 16 cores: 8 s (C19) to 556 s (C01), 61 min for all 19 in sequence; thorough tier demonstrated to exit 0 for C02, C04, C05, C07, C13, C19 only (see DESIGN.md 0.1), the other thorough commands are deeper bounds of the same harnesses that were not run to completion in the building sessions. Seeded defects used to test the checks (50, from independent sub-agents) are under /verif/seeded/<property>-m<k>/ (patch.diff, demo_test.go, notes.md, meta.json); DESIGN.md section 10 says which check catches which. Exit codes of every check: 0 held within bounds; 1 VIOLATION (replay-confirmed); 2 INCONCLUSIVE (unknown/timeout, unsupported construct, unwind budget, vacuous reach tag); 3 ENGINE-DISAGREEMENT (model not reproducible natively or solvers disagree).",
 "not_applicable": [{"property_id": p, "reason": na.get(p, "check under construction in this session; not yet registered")} for p in props if p not in claimed],
}
json.dump(m, open('/verif/MANIFEST.json', 'w'), indent=1)
print("claimed:", sorted(claimed))
