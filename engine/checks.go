package main

const scenarioBoundsQuick = "scenarios (sum, not product): origin lists {*; a.b; *.a.b:*+a.b; http a.b+[::1]} x 1 Origin value of <=13 symbolic bytes (absent / empty list / 1 / 2 values) x {GET, OPTIONS, preflight}; method lists (3 menus) x ACRM <=6 symbolic bytes; request-header lists (5 menus) x 0-2 ACRH lines of <=5 symbolic bytes; PNA switches x ACRPN <=5 bytes; expose (3) / max-age {0,-1,600} / status symbolic 64-bit; dispatch: method <=7 symbolic bytes x presence kinds of Origin and ACRM; debug symbolic except in the origin scenario (off)"
const scenarioBoundsThorough = "as quick with: 8 origin menus (incl. IPv4/IPv6 loopback, trailing dot, shared non-label suffix, :* ports), Origin <=17 bytes, debug symbolic everywhere, 5 method menus, 6 request-header menus, 0-3 ACRH lines of <=6 bytes, 5 expose menus, 6 max-age values"
const scenarioOutside = "configurations outside the menus; request values longer than the bounds; combinations of two symbolic aspects at once (each scenario pins the aspects it does not vary); IDNA/PSL/netip semantics beyond the menu atoms (run natively)"

var checkSpecs = map[string]CheckSpec{
	"S00": {ID: "S00", Harnesses: []HarnessSpec{
		{Pkg: "headers", Entry: "zzH_smoke_trim", Reach: []string{"trimmed", "failed"}},
	}, Bounds: map[string]string{"quick": "smoke", "thorough": "smoke"}, Outside: "n/a", Explain: "smoke"},
	"C03": {ID: "C03", Harnesses: []HarnessSpec{
		{Pkg: "cors", Entry: "zzH_C03_api", Reach: []string{"acao-star", "acao-echo", "acac", "no-acao", "aceh", "acma", "preflight"}},
	}, Bounds: map[string]string{"quick": scenarioBoundsQuick, "thorough": scenarioBoundsThorough}, Outside: scenarioOutside,
		Explain: "NewMiddleware+Wrap+ServeHTTP executed symbolically on accepted configurations and symbolic requests; every clause of C03 is an assertion on the recorded response; the allowed-origin oracle is the documented pattern meaning written by hand (zzDenotes)"},
	"C06": {ID: "C06", Harnesses: []HarnessSpec{
		{Pkg: "cors", Entry: "zzH_C06_api", Reach: []string{"roundtrip"}},
	}, Bounds: map[string]string{"quick": scenarioBoundsQuick, "thorough": scenarioBoundsThorough}, Outside: scenarioOutside,
		Explain: "three constructions (NewMiddleware(c), NewMiddleware(*m.Config()), zero value + Reconfigure(&c)) serve the same symbolic request; responses compared field by field; Config() idempotence after one trip; m.Reconfigure(m.Config()) is a no-op"},
	"C08": {ID: "C08", Harnesses: []HarnessSpec{
		{Pkg: "cors", Entry: "zzH_C08_api", Reach: []string{"rejected", "passthrough", "debug-probed"}},
	}, Bounds: map[string]string{"quick": scenarioBoundsQuick + "; invalid configurations: 8 single/multi-violation shapes with symbolic out-of-range integers (all 8 x passthrough/configured prior state in the lists/PNA/dispatch scenarios, the multi-violation one elsewhere)", "thorough": scenarioBoundsThorough + "; invalid configurations as quick"}, Outside: scenarioOutside,
		Explain: "observations (response to a symbolic request, Config(), debug probe) before and after a failed Reconfigure must be equal"},
	"C09": {ID: "C09", Harnesses: []HarnessSpec{
		{Pkg: "cors", Entry: "zzH_C09_history", Reach: []string{"history"}},
		{Pkg: "cors", Entry: "zzH_C09_diag", Reach: []string{"same", "failing-preflight", "debug-acah"}},
	}, Bounds: map[string]string{"quick": "histories of <=4 steps over 6 operations from 2 start states (exhaustive by forking), observed after every step; diagnostics part: " + scenarioBoundsQuick, "thorough": "histories of <=6 steps; diagnostics part: " + scenarioBoundsThorough}, Outside: scenarioOutside + "; histories longer than the bound",
		Explain: "(a) a reference automaton of the documented debug rules runs beside the real middleware over every bounded history; (b) relational: the same symbolic request served with debug off and on"},
	"C10": {ID: "C10", Harnesses: []HarnessSpec{
		{Pkg: "cors", Entry: "zzH_C10_api", Reach: []string{"origin-free", "acrm-free"}},
	}, Bounds: map[string]string{"quick": scenarioBoundsQuick + "; second request: headers not named by the first response's Vary replaced by {absent, fresh symbolic <=4 bytes, interesting literal}", "thorough": scenarioBoundsThorough + "; second request as quick"}, Outside: scenarioOutside,
		Explain: "self-composition: request 2 shares the terms of request 1 for every header named in response 1's Vary and is free elsewhere; status, dispatch, CORS headers and Vary must be equal"},
	"C11": {ID: "C11", Harnesses: []HarnessSpec{
		{Pkg: "cors", Entry: "zzH_C11_api", Reach: []string{"preflight", "delegated", "passthrough"}},
	}, Bounds: map[string]string{"quick": scenarioBoundsQuick + "; handler status symbolic 64-bit, handler/pre-set Vary and headers symbolic presence in the dispatch scenario", "thorough": scenarioBoundsThorough}, Outside: scenarioOutside + "; handler bodies (Write is counted, not inspected)",
		Explain: "handler invocation count, identity of writer/request, status and header survival asserted against the documented preflight predicate; passthrough (zero value and Reconfigure(nil)) must be the identity"},
	"C16": {ID: "C16", Harnesses: []HarnessSpec{
		{Pkg: "cors", Entry: "zzH_C16_api", Reach: []string{"failed", "succeeded"}},
	}, Bounds: map[string]string{"quick": scenarioBoundsQuick + " (preflights only, debug off)", "thorough": scenarioBoundsThorough + " (preflights only, debug off)"}, Outside: scenarioOutside,
		Explain: "failed preflight: 403 and no Access-Control-* header; successful preflight: every value of every Access-Control-* header is *, true, the configured max-age, `*,authorization` in its documented case, or byte-equal to a value the request supplied"},
}
