package main

var checkSpecs = map[string]CheckSpec{
	"S00": {ID: "S00", Harnesses: []HarnessSpec{
		{Pkg: "headers", Entry: "zzH_smoke_trim", Reach: []string{"trimmed", "failed"}},
	}, Bounds: map[string]string{"quick": "smoke", "thorough": "smoke"}, Outside: "n/a", Explain: "smoke"},
}
