package main

const scenarioBoundsQuick = "scenarios (sum, not product): origin lists {*; a.b; *.a.b:*+a.b; http a.b+[::1]} x 1 Origin value of <=13 symbolic bytes (absent / empty list / 1 / 2 values) x {GET, OPTIONS, preflight}; method lists (3 menus) x ACRM <=6 symbolic bytes; request-header lists (5 menus) x 0-2 ACRH lines of <=5 symbolic bytes; PNA switches x ACRPN <=5 bytes; expose (3) / max-age {0,-1,600} / status symbolic 64-bit; dispatch: method <=7 symbolic bytes x presence kinds of Origin and ACRM; debug symbolic except in the origin scenario (off)"
const scenarioBoundsThorough = "as quick with: 8 origin menus (incl. IPv4/IPv6 loopback, trailing dot, shared non-label suffix, :* ports), Origin <=17 bytes, debug symbolic everywhere, 5 method menus, 6 request-header menus, 0-3 ACRH lines of <=6 bytes, 5 expose menus, 6 max-age values"
const scenarioOutside = "configurations outside the menus; request values longer than the bounds; combinations of two symbolic aspects at once (each scenario pins the aspects it does not vary); IDNA/PSL/netip semantics beyond the menu atoms (run natively)"

var checkSpecs = map[string]CheckSpec{
	"S00": {ID: "S00", Harnesses: []HarnessSpec{
		{Pkg: "headers", Entry: "zzH_smoke_trim", Reach: []string{"trimmed", "failed"}},
	}, Bounds: map[string]string{"quick": "smoke", "thorough": "smoke"}, Outside: "n/a", Explain: "smoke"},
	"C03": {ID: "C03", Harnesses: []HarnessSpec{
		{Pkg: "cors", Entry: "zzH_C03_api", Reach: []string{"acao-star", "acao-echo", "acac", "no-acao", "aceh", "acma", "preflight"}},
	}, Bounds: map[string]string{"quick": scenarioBoundsQuick, "thorough": scenarioBoundsThorough}, Outside: scenarioOutside,
		Explain: "NewMiddleware+Wrap+ServeHTTP executed symbolically on accepted configurations and symbolic requests; every clause of C03 is an assertion on the recorded response; the allowed-origin oracle is the documented pattern meaning written by hand (zzDenotes)"},
	"C06": {ID: "C06", Harnesses: []HarnessSpec{
		{Pkg: "cors", Entry: "zzH_C06_api", Reach: []string{"roundtrip"}},
	}, Bounds: map[string]string{"quick": scenarioBoundsQuick, "thorough": scenarioBoundsThorough}, Outside: scenarioOutside,
		Explain: "three constructions (NewMiddleware(c), NewMiddleware(*m.Config()), zero value + Reconfigure(&c)) serve the same symbolic request; responses compared field by field; Config() idempotence after one trip; m.Reconfigure(m.Config()) is a no-op"},
	"C08": {ID: "C08", Harnesses: []HarnessSpec{
		{Pkg: "cors", Entry: "zzH_C08_api", Reach: []string{"rejected", "passthrough", "debug-probed"}},
	}, Bounds: map[string]string{"quick": scenarioBoundsQuick + "; invalid configurations: 8 single/multi-violation shapes with symbolic out-of-range integers (all 8 x passthrough/configured prior state in the lists/PNA/dispatch scenarios, the multi-violation one elsewhere)", "thorough": scenarioBoundsThorough + "; invalid configurations as quick"}, Outside: scenarioOutside,
		Explain: "observations (response to a symbolic request, Config(), debug probe) before and after a failed Reconfigure must be equal"},
	"C09": {ID: "C09", Harnesses: []HarnessSpec{
		{Pkg: "cors", Entry: "zzH_C09_history", Reach: []string{"history"}},
		{Pkg: "cors", Entry: "zzH_C09_diag", Reach: []string{"same", "failing-preflight", "debug-acah"}},
	}, Bounds: map[string]string{"quick": "histories of <=4 steps over 6 operations from 2 start states (exhaustive by forking), observed after every step; diagnostics part: " + scenarioBoundsQuick, "thorough": "histories of <=6 steps; diagnostics part: " + scenarioBoundsThorough}, Outside: scenarioOutside + "; histories longer than the bound",
		Explain: "(a) a reference automaton of the documented debug rules runs beside the real middleware over every bounded history; (b) relational: the same symbolic request served with debug off and on"},
	"C10": {ID: "C10", Harnesses: []HarnessSpec{
		{Pkg: "cors", Entry: "zzH_C10_api", Reach: []string{"origin-free", "acrm-free"}},
	}, Bounds: map[string]string{"quick": scenarioBoundsQuick + "; second request: headers not named by the first response's Vary replaced by {absent, fresh symbolic <=4 bytes, interesting literal}", "thorough": scenarioBoundsThorough + "; second request as quick"}, Outside: scenarioOutside,
		Explain: "self-composition: request 2 shares the terms of request 1 for every header named in response 1's Vary and is free elsewhere; status, dispatch, CORS headers and Vary must be equal"},
	"C11": {ID: "C11", Harnesses: []HarnessSpec{
		{Pkg: "cors", Entry: "zzH_C11_api", Reach: []string{"preflight", "delegated", "passthrough"}},
	}, Bounds: map[string]string{"quick": scenarioBoundsQuick + "; handler status symbolic 64-bit, handler/pre-set Vary and headers symbolic presence in the dispatch scenario", "thorough": scenarioBoundsThorough}, Outside: scenarioOutside + "; handler bodies (Write is counted, not inspected)",
		Explain: "handler invocation count, identity of writer/request, status and header survival asserted against the documented preflight predicate; passthrough (zero value and Reconfigure(nil)) must be the identity"},
	"C16": {ID: "C16", Harnesses: []HarnessSpec{
		{Pkg: "cors", Entry: "zzH_C16_api", Reach: []string{"failed", "succeeded"}},
	}, Bounds: map[string]string{"quick": scenarioBoundsQuick + " (preflights only, debug off)", "thorough": scenarioBoundsThorough + " (preflights only, debug off)"}, Outside: scenarioOutside,
		Explain: "failed preflight: 403 and no Access-Control-* header; successful preflight: every value of every Access-Control-* header is *, true, the configured max-age, `*,authorization` in its documented case, or byte-equal to a value the request supplied"},
	"C01": {ID: "C01", Harnesses: []HarnessSpec{
		{Pkg: "cors", Entry: "zzH_C01_api", Reach: []string{"allowed", "not-allowed"}},
	}, Bounds: map[string]string{
		"quick":    "every ordered selection with repetition of 1-2 patterns from a pool of 6 and of 3 patterns from its first 4 (exact, *.sub, shared non-label suffix, *.b:*, fixed port, scheme that is a prefix), concrete patterns built by the real NewMiddleware; one Origin value of <=13 fully symbolic bytes",
		"thorough": "pool of 16 (adds bare TLD, :*, trailing dot, deeper subdomain, IPv6, IPv4, longer scheme, second shared-suffix host, *.sub with port, port 65535), 3 patterns from its first 8; Origin <=16 symbolic bytes",
	}, Outside: "more than 3 patterns; patterns outside the pool (hosts longer than the pool's, 253-byte hosts: see C13); origins longer than the bound; bracketed non-IP hosts (the request-side parser is documented as lenient; not judged)",
		Explain: "ACAO present <=> some listed pattern denotes the symbolic origin, with the denotation written by hand from the documentation (zzDenotes); order- and multiplicity-independence follow because every ordered selection is explored against the same symmetric oracle"},
	"C14": {ID: "C14", Harnesses: []HarnessSpec{
		{Pkg: "cors", Entry: "zzH_C14_api", Reach: []string{"approved", "rejected"}},
		{Pkg: "headers", Entry: "zzH_C14_unit", Reach: []string{"approved", "rejected"}, Secondary: true},
		{Pkg: "headers", Entry: "zzH_C14_empties", Reach: []string{"empties", "over-budget"}, Secondary: true},
		{Pkg: "headers", Entry: "zzH_C14_complete", Reach: []string{"complete"}, Secondary: true},
	}, Bounds: map[string]string{
		"quick":    "allowed sets {a} (1 line x 6 symbolic bytes), {a,ab,b} (2 lines x 4), {a,b,c} (1 x 5), {ab,b}/{x-a,x-b} (1 x 5): every line fully symbolic, longer than the scan window where the set's longest name is short; empty-element budget: 0-20 leading commas distributed by the solver over 1-3 lines plus a 3-byte symbolic tail; completeness: every subset of each of 6 sets, with every padding / empty-element / line-break perturbation",
		"thorough": "9 shapes up to 3 lines x 4 bytes, 2 lines x 5 bytes, 1 line x 7 bytes over 6 sets",
	}, Outside: "sets other than the six; lines longer than the bounds; more than 3 lines",
		Explain: "headers.Check (unit) and the preflight verdict (API, debug off) are compared with zzRefCheck, a literal transcription of C14's statement; soundness and completeness are corollaries of the equality, completeness is also asserted constructively"},
	"C19": {ID: "C19", Harnesses: []HarnessSpec{
		{Pkg: "cfgerrors", Entry: "zzH_C19_unit", Reach: []string{"early-exit", "exhausted", "three-leaves"}},
	}, Bounds: map[string]string{
		"quick":    "join trees of depth <=2: errors.Join of 1-3 children, each nil / leaf / join of 1-2 (nil / leaf), at most 5 leaves, plus the bare leaf; break position a symbolic 64-bit integer",
		"thorough": "depth <=3, at most 6 leaves",
	}, Outside: "deeper or wider trees; a nil top-level error; error types with their own Unwrap() []error other than errors.Join's",
		Explain: "the yielded sequence (range-over-func form and direct call with an asserting yield function) must be the prefix of the independently recorded left-to-right leaf list cut at the symbolic break position; tree shapes are enumerated by forking, the break position is decided by the solver"},
}
