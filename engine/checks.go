package main

const scenarioBoundsQuick = "scenarios (sum, not product): origin lists {*; a.b; *.a.b:*+a.b; http a.b+[::1]+[1::1]} x 1 Origin value of <=13 symbolic bytes (absent / empty list / 1 / 2 values) x {GET, OPTIONS, preflight}; method lists (3 menus) x ACRM <=6 symbolic bytes; request-header lists (5 menus: none, *, *+Authorization in both orders and cases, {x-a,B}) x 0-2 ACRH lines of <=5 symbolic bytes; PNA switches x ACRPN <=5 bytes; expose (3) / max-age {0,-1,600,5} / status symbolic 64-bit; dispatch: method <=7 symbolic bytes x presence kinds of Origin and ACRM; debug symbolic except in the origin scenario (off)"
const scenarioBoundsThorough = "as quick with: 8 origin menus (incl. IPv4/IPv6 loopback, trailing dot, shared non-label suffix, :* ports), Origin <=17 bytes, debug symbolic everywhere, 5 method menus, 7 request-header menus, 0-3 ACRH lines of <=6 bytes, 5 expose menus, 6 max-age values"
const scenarioOutside = "configurations outside the menus; request values longer than the bounds; combinations of two symbolic aspects at once (each scenario pins the aspects it does not vary); IDNA/PSL/netip semantics beyond the menu atoms (run natively)"

var checkSpecs = map[string]CheckSpec{
	"S00": {ID: "S00", Harnesses: []HarnessSpec{
		{Pkg: "headers", Entry: "zzH_smoke_trim", Reach: []string{"trimmed", "failed"}},
	}, Bounds: map[string]string{"quick": "smoke", "thorough": "smoke"}, Outside: "n/a", Explain: "smoke"},
	"C03": {ID: "C03", Harnesses: []HarnessSpec{
		{Pkg: "cors", Entry: "zzH_C03_api", Reach: []string{"acao-star", "acao-echo", "acac", "no-acao", "aceh", "acma", "preflight"}},
	}, Bounds: map[string]string{"quick": scenarioBoundsQuick, "thorough": scenarioBoundsThorough}, Outside: scenarioOutside,
		Explain: "NewMiddleware+Wrap+ServeHTTP executed symbolically on accepted configurations and symbolic requests; every clause of C03 is an assertion on the recorded response; the allowed-origin oracle is the documented pattern meaning written by hand (zzDenotes)"},
	"C06": {ID: "C06", Harnesses: []HarnessSpec{
		{Pkg: "cors", Entry: "zzH_C06_api", Reach: []string{"roundtrip"}},
	}, Bounds: map[string]string{"quick": scenarioBoundsQuick, "thorough": scenarioBoundsThorough}, Outside: scenarioOutside,
		Explain: "three constructions (NewMiddleware(c), NewMiddleware(*m.Config()), zero value + Reconfigure(&c)) serve the same symbolic request; responses compared field by field; Config() idempotence after one trip; m.Reconfigure(m.Config()) is a no-op"},
	"C08": {ID: "C08", Harnesses: []HarnessSpec{
		{Pkg: "cors", Entry: "zzH_C08_api", Reach: []string{"rejected", "passthrough", "debug-probed"}},
	}, Bounds: map[string]string{"quick": scenarioBoundsQuick + "; invalid configurations: 8 single/multi-violation shapes with symbolic out-of-range integers (all 8 x passthrough/configured prior state in the lists/PNA/dispatch scenarios, the multi-violation one elsewhere)", "thorough": scenarioBoundsThorough + "; invalid configurations as quick"}, Outside: scenarioOutside,
		Explain: "observations (response to a symbolic request, Config(), debug probe) before and after a failed Reconfigure must be equal"},
	"C09": {ID: "C09", Harnesses: []HarnessSpec{
		{Pkg: "cors", Entry: "zzH_C09_history", Reach: []string{"history"}},
		{Pkg: "cors", Entry: "zzH_C09_diag", Reach: []string{"same", "failing-preflight", "debug-acah"}},
	}, Bounds: map[string]string{"quick": "histories of <=4 steps over 6 operations from 2 start states (exhaustive by forking), observed after every step; diagnostics part: " + scenarioBoundsQuick, "thorough": "histories of <=6 steps; diagnostics part: " + scenarioBoundsThorough}, Outside: scenarioOutside + "; histories longer than the bound",
		Explain: "(a) a reference automaton of the documented debug rules runs beside the real middleware over every bounded history; (b) relational: the same symbolic request served with debug off and on"},
	"C10": {ID: "C10", Harnesses: []HarnessSpec{
		{Pkg: "cors", Entry: "zzH_C10_api", Reach: []string{"origin-free", "acrm-free"}},
	}, Bounds: map[string]string{"quick": scenarioBoundsQuick + "; second request: headers not named by the first response's Vary replaced by {absent, fresh symbolic <=4 bytes, interesting literal}", "thorough": scenarioBoundsThorough + "; second request as quick"}, Outside: scenarioOutside,
		Explain: "self-composition: request 2 shares the terms of request 1 for every header named in response 1's Vary and is free elsewhere; status, dispatch, CORS headers and Vary must be equal"},
	"C11": {ID: "C11", Harnesses: []HarnessSpec{
		{Pkg: "cors", Entry: "zzH_C11_api", Reach: []string{"preflight", "delegated", "passthrough"}},
	}, Bounds: map[string]string{"quick": scenarioBoundsQuick + "; handler status symbolic 64-bit, handler/pre-set Vary and headers symbolic presence in the dispatch scenario", "thorough": scenarioBoundsThorough}, Outside: scenarioOutside + "; handler bodies (Write is counted, not inspected)",
		Explain: "handler invocation count, identity of writer/request, status and header survival asserted against the documented preflight predicate; passthrough (zero value and Reconfigure(nil)) must be the identity"},
	"C16": {ID: "C16", Harnesses: []HarnessSpec{
		{Pkg: "cors", Entry: "zzH_C16_api", Reach: []string{"failed", "succeeded"}},
	}, Bounds: map[string]string{"quick": scenarioBoundsQuick + " (preflights only, debug off)", "thorough": scenarioBoundsThorough + " (preflights only, debug off)"}, Outside: scenarioOutside,
		Explain: "failed preflight: 403 and no Access-Control-* header; successful preflight: every value of every Access-Control-* header is *, true, the configured max-age, `*,authorization` in its documented case, or byte-equal to a value the request supplied"},
	"C01": {ID: "C01", Harnesses: []HarnessSpec{
		{Pkg: "cors", Entry: "zzH_C01_api", Reach: []string{"allowed", "not-allowed", "star"}},
		{Pkg: "origins", Entry: "zzH_C01_tree1", Reach: []string{"contained", "not-contained"}, Secondary: true},
		{Pkg: "origins", Entry: "zzH_C01_tree2", Reach: []string{"contained", "not-contained"}, Secondary: true},
		{Pkg: "origins", Entry: "zzH_C01_tree3", Reach: []string{"contained", "not-contained"}, Secondary: true},
	}, Bounds: map[string]string{
		"quick":    "API: every ordered selection with repetition of 1-2 patterns from a pool of 6 (exact, *.sub, shared non-label suffix, *.b:*, fixed port, scheme that is a prefix), concrete patterns built by the real NewMiddleware; plus `*` listed with 0-1 pool patterns before and 0-1 after it; one Origin value of <=13 fully symbolic bytes. Tree level (Tree.Insert/Contains on origins.Pattern values as ParsePattern produces them; hosts over the alphabet {a,b,.}): tree1 = 1 pattern with a symbolic value of <=6 bytes (incl. `*.`), symbolic scheme in {z,zz}, symbolic port in {absent} u [1,65535] u {*}, origin host <=6 symbolic bytes, symbolic scheme and port; tree2 = 2 such patterns with values of <=5 bytes (hosts <=3), origin host <=4 bytes; tree3 = every ordered triple with repetition from a pool of 7 hosts (ab, bab, bb, a.b, b.b, *.b, *.ab: splits of a node that has a subtree, siblings under a common node, a wildcard ending on an inner node) x port absent/81 per pattern, one scheme, origin host <=4 symbolic bytes with symbolic port",
		"thorough": "API: pool of 16 (adds bare TLD, :*, trailing dot, deeper subdomain, IPv6, IPv4, longer scheme, second shared-suffix host, *.sub with port, port 65535), 1-2 patterns from it and 3 patterns from its first 8; Origin <=16 symbolic bytes. tree2: origin host <=5 bytes; tree3: pool of 12 hosts, origin host <=5 bytes",
	}, Outside: "more than 3 patterns; three patterns with hosts outside the pools; pattern hosts longer than 4 bytes at tree level (253-byte hosts: see C13); alphabets larger than {a,b,.} at tree level (the tree only compares bytes for equality and order); origins longer than the bound; bracketed non-IP hosts (the request-side parser is documented as lenient; not judged)",
		Explain: "API: ACAO present <=> some listed pattern denotes the symbolic origin, with the denotation written by hand from the documentation (zzDenotes). Tree level: Tree.Contains(o) <=> exists i. denotes(p_i, o) with patterns whose scheme, host bytes, `*.` prefix and port are solver variables, so the shape of the radix tree is determined by the path condition; order- and multiplicity-independence follow because the patterns are inserted in the order drawn and the oracle is symmetric and idempotent"},
	"C14": {ID: "C14", Harnesses: []HarnessSpec{
		{Pkg: "cors", Entry: "zzH_C14_api", Reach: []string{"approved", "rejected"}},
		{Pkg: "headers", Entry: "zzH_C14_unit", Reach: []string{"approved", "rejected"}, Secondary: true},
		{Pkg: "headers", Entry: "zzH_C14_empties", Reach: []string{"empties", "over-budget"}, Secondary: true},
		{Pkg: "headers", Entry: "zzH_C14_complete", Reach: []string{"complete"}, Secondary: true},
	}, Bounds: map[string]string{
		"quick":    "allowed sets {a} (1 line x 6 symbolic bytes), {a,ab,b} (2 lines x 4), {a,b,c} (1 x 5), {ab,b}/{x-a,x-b} (1 x 5): every line fully symbolic, longer than the scan window where the set's longest name is short; empty-element budget: 0-20 leading commas distributed by the solver over 1-3 lines plus a 3-byte symbolic tail; completeness: every subset of each of 6 sets, with every padding / empty-element / line-break perturbation",
		"thorough": "9 shapes up to 3 lines x 4 bytes, 2 lines x 5 bytes, 1 line x 7 bytes over 6 sets",
	}, Outside: "sets other than the six; lines longer than the bounds; more than 3 lines",
		Explain: "headers.Check (unit) and the preflight verdict (API, debug off) are compared with zzRefCheck, a literal transcription of C14's statement; soundness and completeness are corollaries of the equality, completeness is also asserted constructively"},
	"C19": {ID: "C19", Harnesses: []HarnessSpec{
		{Pkg: "cfgerrors", Entry: "zzH_C19_unit", Reach: []string{"early-exit", "exhausted", "three-leaves"}},
	}, Bounds: map[string]string{
		"quick":    "wide join trees of depth <=2 (errors.Join of 1-3 children, each nil / leaf / join of 1-2 (nil / leaf), at most 5 leaves), deep narrow trees of 4 join levels (each level: one sub-join with an optional nil/leaf sibling on either side; innermost: join of 1-2 nil/leaf), plus the bare leaf; break position a symbolic 64-bit integer",
		"thorough": "wide trees of depth <=3 with at most 6 leaves; narrow trees of 5 join levels",
	}, Outside: "deeper or wider trees; a nil top-level error; error types with their own Unwrap() []error other than errors.Join's",
		Explain: "the yielded sequence (range-over-func form and direct call with an asserting yield function) must be the prefix of the independently recorded left-to-right leaf list cut at the symbolic break position; tree shapes are enumerated by forking, the break position is decided by the solver"},
	"C02": {ID: "C02", Harnesses: []HarnessSpec{
		{Pkg: "cors", Entry: "zzH_C02_api", Reach: []string{"method-focus", "header-focus", "origin-focus", "permitted", "refused"}},
	}, Bounds: map[string]string{
		"quick":    "three scenarios (sum): method lists (3 menus) x credentialed x a symbolic method token of <=6 bytes x credentials mode; request-header lists (7 menus incl. `*`/Authorization in both orders and cases) x credentialed x every subset of {authorization,x-a,x-b,x-c} x 4 intermediary perturbations x credentials mode x {GET,PUT}; origin lists {*, a.b, *.a.b:*+a.b} x credentialed x both PNA switches x 3 origins x credentials mode x PNA target x {GET,PUT,delete}; both debug modes on every path",
		"thorough": "5 method menus, 6 perturbations",
	}, Outside: "header names outside the 4-name universe; methods longer than 6 bytes; configurations outside the menus; browser behaviour outside the transcribed Fetch steps (CORS-preflight fetch step 7, CORS check, extract header list values, method normalisation, non-wildcard request-header names, PNA's Access-Control-Allow-Private-Network check); preflight caching",
		Explain: "a transcription of the browser's algorithm (zzBrowserVerdict) drives the real middleware with the preflight and the actual request and its verdict is compared with the configuration's documented meaning (zzPermits), in both debug modes"},
	"C04": {ID: "C04", Harnesses: []HarnessSpec{
		{Pkg: "cors", Entry: "zzH_C04_validate", Reach: []string{"accepted", "rejected", "three-violations", "bad-status", "bad-max-age", "junk-method", "junk-header"}},
	}, Bounds: map[string]string{
		"quick":    "one list drawn in full at a time (0-2 atoms from the first 9 origin atoms / 7 name atoms, every order; the origin atoms include one that is both insecure and a public-suffix wildcard), plus one fully symbolic 4-byte method or request-header name; the five switches symbolic for the origin and integer focuses; status and max-age symbolic over the full 64-bit range (max-age: symbolic out-of-range values and the pinned values -2,-1,0,86400,86401); the other fields from three backgrounds (valid / one defect each / mixed)",
		"thorough": "32 origin atoms (one per documented defect), 10 name atoms per list",
	}, Outside: "origin patterns other than the atoms (their grammar is C13's); lists longer than 2; junk names longer than 4 bytes; rendering of accepted max-age values other than the pinned ones",
		Explain: "err == nil <=> the oracle (documented prohibitions evaluated on the Config as supplied) finds no violation; NewMiddleware returns a nil middleware with every error; Reconfigure gives the same verdict"},
	"C05": {ID: "C05", Harnesses: []HarnessSpec{
		{Pkg: "cors", Entry: "zzH_C04_validate", Reach: []string{"accepted", "rejected", "three-violations"}},
	}, Bounds: map[string]string{
		"quick":    "as C04 (same harness): the multiset of (type, Value as supplied, Reason, Type, bounds) yielded by cfgerrors.All must equal the oracle's multiset of violations; every message starts with `cors: `",
		"thorough": "as C04 thorough",
	}, Outside: "as C04; which of invalid|prohibited an origin-pattern defect gets (not documented per defect)",
		Explain: "same harness as C04, opposite direction: valid => accepted, and the reported errors are exactly the documented ones, one per occurrence, none spurious"},
	"C12": {ID: "C12", Harnesses: []HarnessSpec{
		{Pkg: "cors", Entry: "zzH_C12_api", Reach: []string{"scribble-config", "scribble-config-result", "scribble-headers", "history"}},
	}, Bounds: map[string]string{"quick": scenarioBoundsQuick + "; mutation variants: caller scribbles over the Config passed in / over a Config() result / the wrapped handler scribbles over every reachable header slice (up to capacity) / plain history; followed by a battery of 5 probe requests on this and on a second middleware, compared with a pristine reference", "thorough": scenarioBoundsThorough + "; all four variants in every scenario"}, Outside: scenarioOutside + "; mutation through unsafe or reflection",
		Explain: "behavioural: responses after adversarial in-place writes must equal those of an untouched reference; structural (engine only): exact object identity on the symbolic heap shows that no slice backing array reachable from the middleware or from package-level state is reachable from the caller's Config, a Config() result, or the headers visible to the handler"},
	"C13": {ID: "C13", Harnesses: []HarnessSpec{
		{Pkg: "origins", Entry: "zzH_C13_S", Reach: []string{"accepted", "rejected", "wildcard"}},
		{Pkg: "origins", Entry: "zzH_C13_L", Reach: []string{"accepted", "rejected", "all-maxima", "self-match"}},
		{Pkg: "origins", Entry: "zzH_C13_D", Reach: []string{"accepted", "rejected"}},
	}, Bounds: map[string]string{
		"quick":    "S: every byte string of <=12 bytes through ParsePattern, IDNA/netip stubbed (nondeterministic: accept => documented syntax; optimistic: documented syntax => accept); L: concrete grid of scheme lengths {1,63,64,65,66} x domain lengths {1,63,250..255} x trailing dot x wildcard x label of 63/64 x 6 ports with the real IDNA profile, incl. self-match through Parse+Tree (enumeration, no solver); D: 44 documented examples and one atom per documented defect, concrete",
		"thorough": "S: <=14 bytes",
	}, Outside: "which labels IDNA accepts and which IP literals are canonical (delegated to x/net/idna and net/netip; only the concrete atoms of L and D exercise them); strings longer than the S bound other than the L grid; the grey zones the property names (https+IP, `_`, hyphens in positions 3-4) and 251-byte wildcard base plus trailing dot",
		Explain: "S compares ParsePattern with a reference grammar written from the documentation, for all strings within the bound; rejections must be *UnacceptableOriginPatternError naming the input"},
	"C15": {ID: "C15", Harnesses: []HarnessSpec{
		{Pkg: "cors", Entry: "zzH_C15_api", Reach: []string{"twin"}},
		{Pkg: "origins", Entry: "zzH_C01_tree2", Reach: []string{"contained"}, Secondary: true, Tiers: "thorough"},
		{Pkg: "origins", Entry: "zzH_C01_tree3", Reach: []string{"contained"}, Secondary: true, Tiers: "thorough"},
	}, Bounds: map[string]string{"quick": scenarioBoundsQuick + "; twin configurations: reversed lists / rotated with a duplicate / header names upper-cased and normalisable methods respelled / lower-cased plus safelisted methods and response-header names added / every element doubled / reversed+upper-cased (all six in the lists, PNA and dispatch scenarios; one or two per byte-level scenario)", "thorough": scenarioBoundsThorough + "; all six twins in every scenario; plus C01's tree-level harnesses tree2 and tree3 (every ordered pair / pool triple of origin patterns against a symmetric oracle), which the quick tier runs under C01 only"}, Outside: scenarioOutside + "; permutations other than reversal and rotation for lists longer than 3; in the quick tier, order-dependence of the origin tree beyond the menus (decided by C01's tree harnesses)",
		Explain: "the middleware built from the twin configuration must answer the same symbolic request identically (Config() values are deliberately not compared)"},
	"C07": {ID: "C07", Harnesses: []HarnessSpec{
		{Pkg: "cors", Entry: "zzH_C07_api", Reach: []string{"interfered", "config-checked", "served"}},
	}, Bounds: map[string]string{
		"quick":    "3 initial states (passthrough, A, B) x debug x 8 requests (actual, two preflights, non-CORS OPTIONS; origin allowed by both / by B only); at every point where the request releases the lock or calls out, an environment operation chosen among {none, SetDebug(true), SetDebug(false), Reconfigure(nil|A|B|invalid), Config()}, at most 2 state-changing operations per request; A and B differ in origins, credentials, methods, headers, max-age, status, expose list, PNA",
		"thorough": "at most 3 state-changing operations per request",
	}, Outside: "the Go memory model below mutex-ordered accesses, compiler reordering, the real scheduler and the race detector (another technique family: not applicable here); more interfering operations than the bound; requests other than the eight; interference in the middle of a critical section (excluded by the lock-discipline check, which is what makes the reduction to these points valid)",
		Explain: "(1) lock discipline: the engine's RWMutex model flags any access to a field of the shared Middleware without the appropriate lock, any store into a published configuration, any lock mismatch, on every explored path; (2) the response under a solver-chosen schedule of interfering operations must equal the response of one single (configuration, debug) state current during the request; Config() under interference must be the normal form of the current state"},
	"C17": {ID: "C17", Harnesses: []HarnessSpec{
		{Pkg: "cors", Entry: "zzH_C17_serve", Reach: []string{"served"}},
		{Pkg: "cors", Entry: "zzH_C17_config", Reach: []string{"accepted", "rejected", "accepted-symbolic"}},
		{Pkg: "origins", Entry: "zzH_C17_parse", Reach: []string{"parsed", "long"}, Secondary: true},
		{Pkg: "origins", Entry: "zzH_C13_S", Reach: []string{"accepted", "rejected"}, Secondary: true},
		{Pkg: "headers", Entry: "zzH_C14_unit", Reach: []string{"approved", "rejected"}, Secondary: true},
		{Pkg: "cfgerrors", Entry: "zzH_C19_unit", Reach: []string{"exhausted"}, Secondary: true},
	}, Bounds: map[string]string{
		"quick":    "every indexing, slicing, dereference, type assertion, division and explicit panic executed on any explored path is an obligation. serve: method / PNA / steps / lists scenarios as they are (incl. empty ACRM, ACRPN and ACRH value lists); dispatch / header / origin scenarios with a nil header map, nil and empty value lists, odd pre-set writer state, and an Origin value of any length from 401 bytes to 1 MiB; config: junk and symbolic atoms (<=5-byte symbolic origin pattern with IDNA/netip/PSL answering arbitrarily, <=3-byte symbolic names), nil and empty lists, symbolic 64-bit integers, through NewMiddleware, Reconfigure, Config, cfgerrors.All (incl. All(nil)); parse: origins.Parse + Tree.Contains on <=14 symbolic bytes and on any length up to 1 MiB; plus the unit harnesses of C13 (ParsePattern, <=12 bytes), C14 (headers.Check) and C19 (All)",
		"thorough": "origins.Parse <=17 bytes, ParsePattern <=14 bytes, thorough shapes of C14/C19",
	}, Outside: "inputs longer than the bounds except through the length-cap path; ACRH field lines longer than C14's bounds; panics inside IDNA/netip/PSL (run natively on concrete hosts, stubbed on symbolic ones); stack exhaustion; the other properties' harnesses also treat any panic as a violation of their own property",
		Explain: "panic-freedom is a global obligation of the engine; these harnesses drive the exported surface with inputs not constrained by validity assumptions"},
	"C18": {ID: "C18", Harnesses: []HarnessSpec{
		{Pkg: "cors", Entry: "zzH_C18_api", Reach: []string{"counted", "long-method", "long-origin"}, EngineOnlyOK: true},
	}, Bounds: map[string]string{"quick": scenarioBoundsQuick + " (origin, method, header, PNA and steps scenarios); plus an Access-Control-Request-Method of 7-9 symbolic bytes, and an Origin / Access-Control-Request-Method of any length between 401 bytes and 1 MiB", "thorough": scenarioBoundsThorough}, Outside: "the runtime's real allocation counts (escape analysis and the allocator are not in the SSA form: not applicable to this technique); sizes above the bounds (a per-byte or per-element allocation shows up at these sizes, a threshold-triggered one above the bound does not)",
		Explain: "allocation-site events (make, new, closures, boxing of non-pointers, append growth, string building, Header.Add/Set, modelled allocating callees) are counted inside ServeHTTP, the harness's own writer/handler excluded; all paths that take the same branches in package cors must have the same count whatever the internal scanning loops did, and the count must be <= 16"},
}
