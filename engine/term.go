package main

// Hash-consed term DAG over Bool and fixed-width bit-vectors, with eager
// constant folding and a few local rewrites. Concrete execution therefore
// never produces a non-constant term and costs no solver call.

import (
	"fmt"
	"math/bits"
	"strconv"
	"strings"
)

type Op uint8

const (
	OpConst Op = iota
	OpVar
	OpNot // bool
	OpAnd // bool
	OpOr  // bool
	OpIte // bool or bv
	OpEq  // -> bool
	OpUlt
	OpUle
	OpSlt
	OpSle
	OpAdd
	OpSub
	OpMul
	OpUDiv
	OpURem
	OpSDiv
	OpSRem
	OpBAnd
	OpBOr
	OpBXor
	OpBNot
	OpNeg
	OpShl
	OpLshr
	OpAshr
	OpZext    // val = new width
	OpSext    // val = new width
	OpExtract // val = lo ; width = result width
)

var opNames = [...]string{"const", "var", "not", "and", "or", "ite", "=", "bvult", "bvule", "bvslt", "bvsle",
	"bvadd", "bvsub", "bvmul", "bvudiv", "bvurem", "bvsdiv", "bvsrem", "bvand", "bvor", "bvxor", "bvnot", "bvneg",
	"bvshl", "bvlshr", "bvashr", "zext", "sext", "extract"}

// Term is immutable. W == 0 means Bool; otherwise a bit-vector of width W.
type Term struct {
	ID   int32
	Op   Op
	W    uint8
	Val  uint64 // constant value (masked), or parameter for zext/sext/extract
	Name string // variables
	A    [3]*Term
	lo, hi uint64 // unsigned value range (bit-vectors only), a sound over-approximation
	H      uint64 // structural hash: orders commutative operands independently of creation order
}

func mix(h, x uint64) uint64 {
	h ^= x + 0x9e3779b97f4a7c15 + (h << 6) + (h >> 2)
	h *= 0xff51afd7ed558ccd
	h ^= h >> 33
	return h
}

func structHash(t *Term) uint64 {
	h := mix(uint64(t.Op)<<8|uint64(t.W), t.Val)
	for i := 0; i < len(t.Name); i++ {
		h = mix(h, uint64(t.Name[i]))
	}
	for _, a := range t.A {
		if a != nil {
			h = mix(h, a.H)
		} else {
			h = mix(h, 1)
		}
	}
	return h
}

// before reports whether a precedes b in the canonical operand order.
func before(a, b *Term) bool {
	if a.H != b.H {
		return a.H < b.H
	}
	return a.ID < b.ID
}

type termKey struct {
	op      Op
	w       uint8
	val     uint64
	a, b, c int32
	name    string
}

type TermStore struct {
	tab    map[termKey]*Term
	nextID int32
	tt, ff *Term
	nperm  int
}

func NewTermStore() *TermStore {
	ts := &TermStore{tab: make(map[termKey]*Term, 1<<12)}
	ts.tt = ts.mk(OpConst, 0, 1, "", nil, nil, nil)
	ts.ff = ts.mk(OpConst, 0, 0, "", nil, nil, nil)
	return ts
}

// ResetComposite drops every non-leaf term (leaves are constants and
// variables). Only legal when no live value references a composite term.
func (ts *TermStore) ResetComposite() {
	nt := make(map[termKey]*Term, 1<<12)
	for k, t := range ts.tab {
		if t.Op == OpConst || t.Op == OpVar {
			nt[k] = t
		}
	}
	ts.tab = nt
}

func (ts *TermStore) Size() int { return len(ts.tab) }

func id(t *Term) int32 {
	if t == nil {
		return -1
	}
	return t.ID
}

func (ts *TermStore) mk(op Op, w uint8, val uint64, name string, a, b, c *Term) *Term {
	k := termKey{op, w, val, id(a), id(b), id(c), name}
	if t, ok := ts.tab[k]; ok {
		return t
	}
	t := &Term{ID: ts.nextID, Op: op, W: w, Val: val, Name: name, A: [3]*Term{a, b, c}}
	ts.nextID++
	t.H = structHash(t)
	if w != 0 {
		t.lo, t.hi = rangeOf(t)
	}
	ts.tab[k] = t
	return t
}

// VarBounded is a variable known (by an assumption the caller also puts into
// the path condition) to be <= hi as an unsigned number.
func (ts *TermStore) VarBounded(name string, w uint8, hi uint64) *Term {
	// the bound is part of the hash-consing key (Val is otherwise unused for
	// variables): the same name with another bound is another term
	t := ts.mk(OpVar, w, hi, name, nil, nil, nil)
	t.hi = min(hi, mask(w))
	return t
}

func rangeOf(t *Term) (uint64, uint64) {
	m := mask(t.W)
	a, b := t.A[0], t.A[1]
	switch t.Op {
	case OpConst:
		return t.Val, t.Val
	case OpZext:
		return a.lo, a.hi
	case OpSext:
		if a.hi < uint64(1)<<(a.W-1) {
			return a.lo, a.hi
		}
	case OpExtract:
		if t.Val == 0 && a.hi <= m {
			return a.lo, a.hi
		}
	case OpBAnd:
		return 0, min(a.hi, b.hi)
	case OpBOr, OpBXor:
		h := max(a.hi, b.hi)
		n := bits.Len64(h)
		if n >= 64 {
			return 0, m
		}
		return 0, min(m, (uint64(1)<<n)-1)
	case OpLshr:
		if b.Op == OpConst && b.Val < 64 {
			return a.lo >> b.Val, a.hi >> b.Val
		}
		return 0, a.hi
	case OpShl:
		if b.Op == OpConst && b.Val < 64 && bits.Len64(a.hi)+int(b.Val) <= int(t.W) {
			return a.lo << b.Val, a.hi << b.Val
		}
	case OpURem:
		if b.lo > 0 {
			return 0, min(a.hi, b.hi-1)
		}
		return 0, a.hi
	case OpUDiv:
		if b.lo > 0 {
			return a.lo / b.hi, a.hi / b.lo
		}
	case OpAdd:
		if s := a.hi + b.hi; s >= a.hi && s <= m {
			return a.lo + b.lo, s
		}
	case OpIte:
		x, y := t.A[1], t.A[2]
		return min(x.lo, y.lo), max(x.hi, y.hi)
	}
	return 0, m
}

func mask(w uint8) uint64 {
	if w >= 64 {
		return ^uint64(0)
	}
	return (uint64(1) << w) - 1
}

func sext64(v uint64, w uint8) int64 {
	if w >= 64 {
		return int64(v)
	}
	sh := 64 - uint(w)
	return int64(v<<sh) >> sh
}

func (t *Term) IsConst() bool { return t.Op == OpConst }
func (t *Term) IsBool() bool  { return t.W == 0 }
func (t *Term) IsTrue() bool  { return t.Op == OpConst && t.W == 0 && t.Val == 1 }
func (t *Term) IsFalse() bool { return t.Op == OpConst && t.W == 0 && t.Val == 0 }

// Int returns the constant as a signed integer of the term's width.
func (t *Term) Int() int64   { return sext64(t.Val, t.W) }
func (t *Term) Uint() uint64 { return t.Val }

func (ts *TermStore) Bool(b bool) *Term {
	if b {
		return ts.tt
	}
	return ts.ff
}

func (ts *TermStore) BV(w uint8, v uint64) *Term {
	if w == 0 {
		panic("BV width 0")
	}
	return ts.mk(OpConst, w, v&mask(w), "", nil, nil, nil)
}

func (ts *TermStore) Int64(v int64) *Term { return ts.BV(64, uint64(v)) }

func (ts *TermStore) Var(name string, w uint8) *Term {
	return ts.mk(OpVar, w, 0, name, nil, nil, nil)
}

func (ts *TermStore) Not(a *Term) *Term {
	if a.W != 0 {
		panic("Not on bv")
	}
	if a.Op == OpConst {
		return ts.Bool(a.Val == 0)
	}
	if a.Op == OpNot {
		return a.A[0]
	}
	return ts.mk(OpNot, 0, 0, "", a, nil, nil)
}

func (ts *TermStore) And(a, b *Term) *Term {
	if a.IsFalse() || b.IsFalse() {
		return ts.ff
	}
	if a.IsTrue() {
		return b
	}
	if b.IsTrue() {
		return a
	}
	if a == b {
		return a
	}
	if (a.Op == OpNot && a.A[0] == b) || (b.Op == OpNot && b.A[0] == a) {
		return ts.ff
	}
	if before(b, a) {
		a, b = b, a
	}
	return ts.mk(OpAnd, 0, 0, "", a, b, nil)
}

func (ts *TermStore) Or(a, b *Term) *Term {
	if a.IsTrue() || b.IsTrue() {
		return ts.tt
	}
	if a.IsFalse() {
		return b
	}
	if b.IsFalse() {
		return a
	}
	if a == b {
		return a
	}
	if (a.Op == OpNot && a.A[0] == b) || (b.Op == OpNot && b.A[0] == a) {
		return ts.tt
	}
	if before(b, a) {
		a, b = b, a
	}
	return ts.mk(OpOr, 0, 0, "", a, b, nil)
}

func (ts *TermStore) Implies(a, b *Term) *Term { return ts.Or(ts.Not(a), b) }

func (ts *TermStore) Ite(c, a, b *Term) *Term {
	if c.W != 0 {
		panic("ite cond not bool")
	}
	if a.W != b.W {
		panic(fmt.Sprintf("ite width mismatch %d %d", a.W, b.W))
	}
	if c.IsTrue() {
		return a
	}
	if c.IsFalse() {
		return b
	}
	if a == b {
		return a
	}
	if a.W == 0 {
		if a.IsTrue() && b.IsFalse() {
			return c
		}
		if a.IsFalse() && b.IsTrue() {
			return ts.Not(c)
		}
		if a.IsTrue() {
			return ts.Or(c, b)
		}
		if a.IsFalse() {
			return ts.And(ts.Not(c), b)
		}
		if b.IsTrue() {
			return ts.Or(ts.Not(c), a)
		}
		if b.IsFalse() {
			return ts.And(c, a)
		}
	}
	if c.Op == OpNot {
		return ts.mk(OpIte, a.W, 0, "", c.A[0], b, a)
	}
	// ite(c, x, ite(c, y, z)) = ite(c, x, z)
	if b.Op == OpIte && b.A[0] == c {
		return ts.Ite(c, a, b.A[2])
	}
	if a.Op == OpIte && a.A[0] == c {
		return ts.Ite(c, a.A[1], b)
	}
	return ts.mk(OpIte, a.W, 0, "", c, a, b)
}

// liftable reports whether t is an ite tree all of whose leaves are constants
// (of bounded size), so that a unary operation / comparison with a constant
// can be pushed to the leaves.
func liftable(t *Term, budget *int) bool {
	if *budget <= 0 {
		return false
	}
	*budget--
	if t.Op == OpConst {
		return true
	}
	if t.Op == OpIte {
		return liftable(t.A[1], budget) && liftable(t.A[2], budget)
	}
	return false
}

func (ts *TermStore) lift1(t *Term, f func(*Term) *Term) *Term {
	if t.Op == OpIte {
		return ts.Ite(t.A[0], ts.lift1(t.A[1], f), ts.lift1(t.A[2], f))
	}
	return f(t)
}

func (ts *TermStore) Eq(a, b *Term) *Term {
	if a.W != b.W {
		panic(fmt.Sprintf("eq width mismatch %d %d (%s, %s)", a.W, b.W, a, b))
	}
	if a == b {
		return ts.tt
	}
	if a.Op == OpConst && b.Op == OpConst {
		return ts.Bool(a.Val == b.Val)
	}
	if a.W != 0 && (a.hi < b.lo || b.hi < a.lo) {
		return ts.ff
	}
	if a.W == 0 {
		// bool equality
		if a.Op == OpConst {
			a, b = b, a
		}
		if b.Op == OpConst {
			if b.Val == 1 {
				return a
			}
			return ts.Not(a)
		}
	}
	if a.Op == OpConst {
		a, b = b, a
	}
	if b.Op == OpConst {
		bud := 16
		if a.Op == OpIte && liftable(a, &bud) {
			return ts.lift1(a, func(l *Term) *Term { return ts.Bool(l.Val == b.Val) })
		}
		// (x + c1) == c2  ->  x == c2-c1
		if a.Op == OpAdd && a.A[1].Op == OpConst {
			return ts.Eq(a.A[0], ts.BV(a.W, b.Val-a.A[1].Val))
		}
		// zext(x) == c
		if a.Op == OpZext {
			x := a.A[0]
			if b.Val&^mask(x.W) != 0 {
				return ts.ff
			}
			return ts.Eq(x, ts.BV(x.W, b.Val))
		}
	}
	if before(b, a) {
		a, b = b, a
	}
	return ts.mk(OpEq, 0, 0, "", a, b, nil)
}

func (ts *TermStore) cmp(op Op, a, b *Term) *Term {
	if a.W != b.W || a.W == 0 {
		panic(fmt.Sprintf("cmp width mismatch %d %d", a.W, b.W))
	}
	if a.Op == OpConst && b.Op == OpConst {
		switch op {
		case OpUlt:
			return ts.Bool(a.Val < b.Val)
		case OpUle:
			return ts.Bool(a.Val <= b.Val)
		case OpSlt:
			return ts.Bool(a.Int() < b.Int())
		case OpSle:
			return ts.Bool(a.Int() <= b.Int())
		}
	}
	if a == b {
		return ts.Bool(op == OpUle || op == OpSle)
	}
	{
		uop := op
		half := uint64(1) << (a.W - 1)
		if (op == OpSlt || op == OpSle) && a.hi < half && b.hi < half {
			if op == OpSlt {
				uop = OpUlt
			} else {
				uop = OpUle
			}
		}
		if uop != op {
			return ts.cmp(uop, a, b)
		}
		switch uop {
		case OpUlt:
			if a.hi < b.lo {
				return ts.tt
			}
			if a.lo >= b.hi {
				return ts.ff
			}
		case OpUle:
			if a.hi <= b.lo {
				return ts.tt
			}
			if a.lo > b.hi {
				return ts.ff
			}
		}
		// 0 <u x  and  1 <=u x  are  x != 0
		if (uop == OpUlt && a.Op == OpConst && a.Val == 0) || (uop == OpUle && a.Op == OpConst && a.Val == 1) {
			return ts.Not(ts.Eq(b, ts.BV(b.W, 0)))
		}
		// x <u 1  and  x <=u 0  are  x == 0
		if (uop == OpUlt && b.Op == OpConst && b.Val == 1) || (uop == OpUle && b.Op == OpConst && b.Val == 0) {
			return ts.Eq(a, ts.BV(a.W, 0))
		}
	}
	if b.Op == OpConst {
		bud := 16
		if a.Op == OpIte && liftable(a, &bud) {
			return ts.lift1(a, func(l *Term) *Term { return ts.cmp(op, l, b) })
		}
		if op == OpUlt && b.Val == 0 {
			return ts.ff
		}
		if op == OpUle && b.Val == mask(b.W) {
			return ts.tt
		}
		// zext(x) <u c
		if a.Op == OpZext && (op == OpUlt || op == OpUle) {
			x := a.A[0]
			if b.Val > mask(x.W) {
				return ts.tt
			}
			return ts.cmp(op, x, ts.BV(x.W, b.Val))
		}
		if a.Op == OpZext && (op == OpSlt || op == OpSle) && b.Int() >= 0 && a.W > a.A[0].W {
			x := a.A[0]
			if b.Val > mask(x.W) {
				return ts.tt
			}
			uop := OpUlt
			if op == OpSle {
				uop = OpUle
			}
			return ts.cmp(uop, x, ts.BV(x.W, b.Val))
		}
	}
	if a.Op == OpConst {
		bud := 16
		if b.Op == OpIte && liftable(b, &bud) {
			return ts.lift1(b, func(l *Term) *Term { return ts.cmp(op, a, l) })
		}
		if op == OpUle && a.Val == 0 {
			return ts.tt
		}
		if b.Op == OpZext && (op == OpUlt || op == OpUle) {
			x := b.A[0]
			if a.Val > mask(x.W) {
				return ts.ff
			}
			return ts.cmp(op, ts.BV(x.W, a.Val), x)
		}
		if b.Op == OpZext && (op == OpSlt || op == OpSle) && b.W > b.A[0].W {
			x := b.A[0]
			if a.Int() < 0 {
				return ts.tt
			}
			if a.Val > mask(x.W) {
				return ts.ff
			}
			uop := OpUlt
			if op == OpSle {
				uop = OpUle
			}
			return ts.cmp(uop, ts.BV(x.W, a.Val), x)
		}
	}
	return ts.mk(op, 0, 0, "", a, b, nil)
}

func (ts *TermStore) Ult(a, b *Term) *Term { return ts.cmp(OpUlt, a, b) }
func (ts *TermStore) Ule(a, b *Term) *Term { return ts.cmp(OpUle, a, b) }
func (ts *TermStore) Slt(a, b *Term) *Term { return ts.cmp(OpSlt, a, b) }
func (ts *TermStore) Sle(a, b *Term) *Term { return ts.cmp(OpSle, a, b) }

func (ts *TermStore) foldBin(op Op, w uint8, x, y uint64) (uint64, bool) {
	m := mask(w)
	switch op {
	case OpAdd:
		return (x + y) & m, true
	case OpSub:
		return (x - y) & m, true
	case OpMul:
		return (x * y) & m, true
	case OpUDiv:
		if y == 0 {
			return m, true
		}
		return x / y, true
	case OpURem:
		if y == 0 {
			return x, true
		}
		return x % y, true
	case OpSDiv:
		if y == 0 {
			return 0, false
		}
		sx, sy := sext64(x, w), sext64(y, w)
		if sy == -1 {
			return uint64(-sx) & m, true
		}
		return uint64(sx/sy) & m, true
	case OpSRem:
		if y == 0 {
			return 0, false
		}
		sx, sy := sext64(x, w), sext64(y, w)
		if sy == -1 {
			return 0, true
		}
		return uint64(sx%sy) & m, true
	case OpBAnd:
		return x & y, true
	case OpBOr:
		return x | y, true
	case OpBXor:
		return x ^ y, true
	case OpShl:
		if y >= uint64(w) {
			return 0, true
		}
		return (x << y) & m, true
	case OpLshr:
		if y >= uint64(w) {
			return 0, true
		}
		return x >> y, true
	case OpAshr:
		sx := sext64(x, w)
		if y >= uint64(w) {
			y = uint64(w) - 1
		}
		return uint64(sx>>y) & m, true
	}
	return 0, false
}

func (ts *TermStore) Bin(op Op, a, b *Term) *Term {
	if a.W != b.W || a.W == 0 {
		panic(fmt.Sprintf("bin %s width mismatch %d %d", opNames[op], a.W, b.W))
	}
	w := a.W
	if a.Op == OpConst && b.Op == OpConst {
		if v, ok := ts.foldBin(op, w, a.Val, b.Val); ok {
			return ts.BV(w, v)
		}
	}
	switch op {
	case OpAdd:
		if a.Op == OpConst {
			a, b = b, a
		}
		if b.Op == OpConst {
			if b.Val == 0 {
				return a
			}
			if a.Op == OpAdd && a.A[1].Op == OpConst {
				return ts.Bin(OpAdd, a.A[0], ts.BV(w, a.A[1].Val+b.Val))
			}
			bud := 16
			if a.Op == OpIte && liftable(a, &bud) {
				return ts.lift1(a, func(l *Term) *Term { return ts.BV(w, l.Val+b.Val) })
			}
		}
	case OpSub:
		if b.Op == OpConst {
			return ts.Bin(OpAdd, a, ts.BV(w, -b.Val))
		}
		if a == b {
			return ts.BV(w, 0)
		}
		// (x + c) - x = c ; (x + c1) - (x + c2) = c1 - c2
		ax, ac := a, uint64(0)
		if a.Op == OpAdd && a.A[1].Op == OpConst {
			ax, ac = a.A[0], a.A[1].Val
		}
		bx, bc := b, uint64(0)
		if b.Op == OpAdd && b.A[1].Op == OpConst {
			bx, bc = b.A[0], b.A[1].Val
		}
		if ax == bx {
			return ts.BV(w, ac-bc)
		}
	case OpMul:
		if a.Op == OpConst {
			a, b = b, a
		}
		if b.Op == OpConst {
			if b.Val == 0 {
				return b
			}
			if b.Val == 1 {
				return a
			}
		}
	case OpBAnd:
		if a.Op == OpConst {
			a, b = b, a
		}
		if b.Op == OpConst {
			if b.Val == 0 {
				return b
			}
			if b.Val == mask(w) {
				return a
			}
		}
		if a == b {
			return a
		}
	case OpBOr, OpBXor:
		if a.Op == OpConst {
			a, b = b, a
		}
		if b.Op == OpConst && b.Val == 0 {
			return a
		}
		if a == b {
			if op == OpBOr {
				return a
			}
			return ts.BV(w, 0)
		}
	case OpShl, OpLshr, OpAshr:
		if b.Op == OpConst && b.Val == 0 {
			return a
		}
	case OpUDiv:
		if b.Op == OpConst && b.Val != 0 && b.Val&(b.Val-1) == 0 {
			return ts.Bin(OpLshr, a, ts.BV(w, uint64(bits.TrailingZeros64(b.Val))))
		}
	case OpURem:
		if b.Op == OpConst && b.Val != 0 && b.Val&(b.Val-1) == 0 {
			return ts.Bin(OpBAnd, a, ts.BV(w, b.Val-1))
		}
	}
	return ts.mk(op, w, 0, "", a, b, nil)
}

func (ts *TermStore) Add(a, b *Term) *Term { return ts.Bin(OpAdd, a, b) }
func (ts *TermStore) Sub(a, b *Term) *Term { return ts.Bin(OpSub, a, b) }

func (ts *TermStore) BNot(a *Term) *Term {
	if a.Op == OpConst {
		return ts.BV(a.W, ^a.Val)
	}
	if a.Op == OpBNot {
		return a.A[0]
	}
	return ts.mk(OpBNot, a.W, 0, "", a, nil, nil)
}

func (ts *TermStore) Neg(a *Term) *Term {
	if a.Op == OpConst {
		return ts.BV(a.W, -a.Val)
	}
	return ts.mk(OpNeg, a.W, 0, "", a, nil, nil)
}

func (ts *TermStore) Zext(a *Term, w uint8) *Term {
	if a.W == 0 {
		panic("zext of bool")
	}
	if w == a.W {
		return a
	}
	if w < a.W {
		return ts.Extract(a, 0, w)
	}
	if a.Op == OpConst {
		return ts.BV(w, a.Val)
	}
	if a.Op == OpZext {
		return ts.Zext(a.A[0], w)
	}
	bud := 16
	if a.Op == OpIte && liftable(a, &bud) {
		return ts.lift1(a, func(l *Term) *Term { return ts.BV(w, l.Val) })
	}
	return ts.mk(OpZext, w, 0, "", a, nil, nil)
}

func (ts *TermStore) Sext(a *Term, w uint8) *Term {
	if w == a.W {
		return a
	}
	if w < a.W {
		return ts.Extract(a, 0, w)
	}
	if a.Op == OpConst {
		return ts.BV(w, uint64(sext64(a.Val, a.W)))
	}
	bud := 16
	if a.Op == OpIte && liftable(a, &bud) {
		return ts.lift1(a, func(l *Term) *Term { return ts.BV(w, uint64(sext64(l.Val, l.W))) })
	}
	return ts.mk(OpSext, w, 0, "", a, nil, nil)
}

// Extract returns bits [lo, lo+w) of a.
func (ts *TermStore) Extract(a *Term, lo uint8, w uint8) *Term {
	if lo == 0 && w == a.W {
		return a
	}
	if a.Op == OpConst {
		return ts.BV(w, a.Val>>lo)
	}
	if lo == 0 && (a.Op == OpZext || a.Op == OpSext) {
		x := a.A[0]
		if w == x.W {
			return x
		}
		if w < x.W {
			return ts.Extract(x, 0, w)
		}
		if a.Op == OpZext {
			return ts.Zext(x, w)
		}
		return ts.Sext(x, w)
	}
	bud := 16
	if a.Op == OpIte && liftable(a, &bud) {
		return ts.lift1(a, func(l *Term) *Term { return ts.BV(w, l.Val>>lo) })
	}
	return ts.mk(OpExtract, w, uint64(lo), "", a, nil, nil)
}

// ---------------------------------------------------------------- evaluation

// Eval evaluates t under an assignment of variables (missing variables are 0).
func Eval(t *Term, env map[string]uint64, memo map[int32]uint64) uint64 {
	if t.Op == OpConst {
		return t.Val
	}
	if v, ok := memo[t.ID]; ok {
		return v
	}
	var r uint64
	a := t.A
	ev := func(x *Term) uint64 { return Eval(x, env, memo) }
	b2u := func(b bool) uint64 {
		if b {
			return 1
		}
		return 0
	}
	switch t.Op {
	case OpVar:
		r = env[t.Name] & maskOrBool(t.W)
	case OpNot:
		r = 1 - ev(a[0])
	case OpAnd:
		r = ev(a[0]) & ev(a[1])
	case OpOr:
		r = ev(a[0]) | ev(a[1])
	case OpIte:
		if ev(a[0]) == 1 {
			r = ev(a[1])
		} else {
			r = ev(a[2])
		}
	case OpEq:
		r = b2u(ev(a[0]) == ev(a[1]))
	case OpUlt:
		r = b2u(ev(a[0]) < ev(a[1]))
	case OpUle:
		r = b2u(ev(a[0]) <= ev(a[1]))
	case OpSlt:
		r = b2u(sext64(ev(a[0]), a[0].W) < sext64(ev(a[1]), a[1].W))
	case OpSle:
		r = b2u(sext64(ev(a[0]), a[0].W) <= sext64(ev(a[1]), a[1].W))
	case OpBNot:
		r = ^ev(a[0]) & mask(t.W)
	case OpNeg:
		r = (-ev(a[0])) & mask(t.W)
	case OpZext:
		r = ev(a[0])
	case OpSext:
		r = uint64(sext64(ev(a[0]), a[0].W)) & mask(t.W)
	case OpExtract:
		r = (ev(a[0]) >> t.Val) & mask(t.W)
	default:
		x, y := ev(a[0]), ev(a[1])
		var ok bool
		var ts TermStore
		r, ok = ts.foldBin(t.Op, t.W, x, y)
		if !ok { // signed division by zero: SMT-LIB semantics
			switch t.Op {
			case OpSDiv:
				if sext64(x, t.W) < 0 {
					r = 1
				} else {
					r = mask(t.W)
				}
			case OpSRem:
				r = x
			}
		}
	}
	memo[t.ID] = r
	return r
}

func maskOrBool(w uint8) uint64 {
	if w == 0 {
		return 1
	}
	return mask(w)
}

// ---------------------------------------------------------------- printing

func sortStr(w uint8) string {
	if w == 0 {
		return "Bool"
	}
	return "(_ BitVec " + strconv.Itoa(int(w)) + ")"
}

func constStr(t *Term) string {
	if t.W == 0 {
		if t.Val == 1 {
			return "true"
		}
		return "false"
	}
	if t.W%4 == 0 {
		return fmt.Sprintf("#x%0*x", int(t.W)/4, t.Val)
	}
	return fmt.Sprintf("#b%0*b", int(t.W), t.Val)
}

// ref is how a term is referred to inside other terms once defined.
func ref(t *Term) string {
	switch t.Op {
	case OpConst:
		return constStr(t)
	case OpVar:
		return t.Name
	}
	return "t" + strconv.Itoa(int(t.ID))
}

// body prints the defining expression of a non-leaf term, one level deep.
func body(t *Term) string {
	a := t.A
	switch t.Op {
	case OpNot, OpBNot, OpNeg:
		return "(" + opNames[t.Op] + " " + ref(a[0]) + ")"
	case OpIte:
		return "(ite " + ref(a[0]) + " " + ref(a[1]) + " " + ref(a[2]) + ")"
	case OpZext:
		return fmt.Sprintf("((_ zero_extend %d) %s)", int(t.W)-int(a[0].W), ref(a[0]))
	case OpSext:
		return fmt.Sprintf("((_ sign_extend %d) %s)", int(t.W)-int(a[0].W), ref(a[0]))
	case OpExtract:
		return fmt.Sprintf("((_ extract %d %d) %s)", int(t.Val)+int(t.W)-1, int(t.Val), ref(a[0]))
	}
	return "(" + opNames[t.Op] + " " + ref(a[0]) + " " + ref(a[1]) + ")"
}

// String renders a term as a (tree-shaped, possibly large) s-expression; for
// diagnostics and samples only.
func (t *Term) String() string {
	var sb strings.Builder
	n := 0
	var rec func(t *Term)
	rec = func(t *Term) {
		n++
		if n > 400 {
			sb.WriteString("…")
			return
		}
		switch t.Op {
		case OpConst:
			if t.W == 0 {
				sb.WriteString(constStr(t))
			} else {
				sb.WriteString(strconv.FormatInt(t.Int(), 10))
			}
			return
		case OpVar:
			sb.WriteString(t.Name)
			return
		}
		sb.WriteString("(")
		sb.WriteString(opNames[t.Op])
		if t.Op == OpExtract {
			fmt.Fprintf(&sb, "[%d+%d]", t.Val, t.W)
		}
		for _, x := range t.A {
			if x != nil {
				sb.WriteString(" ")
				rec(x)
			}
		}
		sb.WriteString(")")
	}
	rec(t)
	return sb.String()
}

// Vars collects the variables occurring in t.
func Vars(t *Term, seen map[int32]bool, out map[string]*Term) {
	if t == nil || seen[t.ID] {
		return
	}
	seen[t.ID] = true
	if t.Op == OpVar {
		out[t.Name] = t
		return
	}
	for _, x := range t.A {
		Vars(x, seen, out)
	}
}
