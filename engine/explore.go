package main

import (
	"fmt"
	"go/token"
	"os"
	"sort"
	"strings"
	"sync"
	"sync/atomic"
	"time"

	"golang.org/x/tools/go/ssa"
)

type Options struct {
	Solver, Solver2, Solver3 string
	TimeoutMs                int
	Workers                  int
	MaxSteps                 int
	Tier                     int // 0 quick, 1 thorough
	Merge                    bool
	MergeStrings             bool
	MaxViolations            int
	MaxPaths                 int64
	Deadline                 time.Duration
	GlobalWriteIsViolation   bool
	ForceFalse               bool // vacuity twin: every zzAssert is treated as zzAssert(false)
	Verbose                  bool
	SolverLog                string
	Seed                     int64
	Profile                  bool
	CheckAbstract            bool
	ConfirmEvery             int // re-ask deciding queries to the confirming solver on every n-th path
}

type Stats struct {
	Paths, PathsOK, AssumeFalse, Infeasible, Budget, Unsupported int64
	Forks, Pruned                                                 int64
	FeasQueries, Obligations, Discharged, Inconclusive           int64
	ConcreteChecks, ConcreteAsserts, ImpliedChecks                int64
	ConfirmQueries, ConfirmUnknown, Disagreements, Unknowns       int64
	Retries                                                        int64
	BatchQueries, BatchNs, PrunedAbs, AbsCrossChecks              int64
	Merges, MergeAborts                                           int64
	Steps                                                         int64
	SymbolicPaths, NontrivialPaths                                int64
}

func (s *Stats) add(o *Stats) {
	s.Paths += o.Paths
	s.PathsOK += o.PathsOK
	s.AssumeFalse += o.AssumeFalse
	s.Infeasible += o.Infeasible
	s.Budget += o.Budget
	s.Unsupported += o.Unsupported
	s.Forks += o.Forks
	s.Pruned += o.Pruned
	s.FeasQueries += o.FeasQueries
	s.Obligations += o.Obligations
	s.Discharged += o.Discharged
	s.Inconclusive += o.Inconclusive
	s.ConcreteChecks += o.ConcreteChecks
	s.ConcreteAsserts += o.ConcreteAsserts
	s.ImpliedChecks += o.ImpliedChecks
	s.ConfirmQueries += o.ConfirmQueries
	s.ConfirmUnknown += o.ConfirmUnknown
	s.Disagreements += o.Disagreements
	s.Unknowns += o.Unknowns
	s.Retries += o.Retries
	s.BatchQueries += o.BatchQueries
	s.BatchNs += o.BatchNs
	s.PrunedAbs += o.PrunedAbs
	s.AbsCrossChecks += o.AbsCrossChecks
	s.Merges += o.Merges
	s.MergeAborts += o.MergeAborts
	s.Steps += o.Steps
	s.SymbolicPaths += o.SymbolicPaths
	s.NontrivialPaths += o.NontrivialPaths
}

type Violation struct {
	Kind      string     `json:"kind"`
	Msg       string     `json:"msg"`
	Harness   string     `json:"harness"`
	Decisions []int32    `json:"decisions"`
	Trace     []TraceOut `json:"trace"`
	Confirmed string     `json:"confirmed,omitempty"`
	ReplayOut string     `json:"replay_output,omitempty"`
	Path      string     `json:"-"`
	// Hooked: the path performs an interfering operation at a point that exists
	// only in the engine's mutex model (right after an Unlock/RUnlock). Such a
	// schedule cannot be forced natively without a hook in /repo; the finding
	// is confirmed by symbolic re-execution of the decision prefix instead.
	Hooked bool `json:"hooked,omitempty"`
}

// TraceOut is one harness-primitive result in call order, concretised from the model.
type TraceOut struct {
	Kind string `json:"k"`
	I    int64  `json:"i,omitempty"`
	B    bool   `json:"b,omitempty"`
	S    string `json:"s,omitempty"` // hex
	Hook bool   `json:"hook,omitempty"`
}

type queue struct {
	mu    sync.Mutex
	cond  *sync.Cond
	items [][]int32
	busy  int
	done  bool
}

func newQueue() *queue {
	q := &queue{}
	q.cond = sync.NewCond(&q.mu)
	return q
}

func (q *queue) push(p []int32) {
	q.mu.Lock()
	q.items = append(q.items, p)
	q.mu.Unlock()
	q.cond.Signal()
}

// pop blocks until an item is available or all workers are idle.
func (q *queue) pop() ([]int32, bool) {
	q.mu.Lock()
	defer q.mu.Unlock()
	for {
		if q.done {
			return nil, false
		}
		if n := len(q.items); n > 0 {
			it := q.items[n-1]
			q.items = q.items[:n-1]
			q.busy++
			return it, true
		}
		if q.busy == 0 {
			q.done = true
			q.cond.Broadcast()
			return nil, false
		}
		q.cond.Wait()
	}
}

func (q *queue) finish() {
	q.mu.Lock()
	q.busy--
	if q.busy == 0 && len(q.items) == 0 {
		q.done = true
		q.cond.Broadcast()
	}
	q.mu.Unlock()
}

func (q *queue) stop() {
	q.mu.Lock()
	q.done = true
	q.mu.Unlock()
	q.cond.Broadcast()
}

type allocClass struct {
	Count  int
	Log    []string
	Sample []int32
	N      int64
}

type sample struct {
	Decisions []int32    `json:"decisions"`
	PCSize    int        `json:"path_condition_conjuncts"`
	Inputs    []TraceOut `json:"inputs,omitempty"`
	Asserts   int        `json:"assertions_on_path"`
	Rendered  []string   `json:"one_model_of_the_path_condition,omitempty"`
}

// sampleInputs asks the solver for one model of the current path condition
// and renders the harness primitives' results under it.
func (w *W) sampleInputs() []string {
	ts := w.ts
	f := ts.tt
	for _, c := range w.pc {
		f = ts.And(f, c)
	}
	seenT := map[int32]bool{}
	vars := map[string]*Term{}
	for _, tv := range w.trace {
		if tv.Kind == "string" {
			Vars(tv.S.Len, seenT, vars)
			for _, b := range tv.S.B.Bytes {
				if b != nil {
					Vars(b, seenT, vars)
				}
			}
		} else {
			Vars(tv.T, seenT, vars)
		}
	}
	Vars(f, seenT, vars)
	names := make([]string, 0, len(vars))
	for n := range vars {
		names = append(names, n)
	}
	sort.Strings(names)
	var vl []*Term
	for _, n := range names {
		vl = append(vl, vars[n])
	}
	w.sol.Push()
	defer w.sol.Pop()
	w.sol.Assert(f)
	if w.sol.Check() != Sat {
		return nil
	}
	env, err := w.sol.Values(vl)
	if err != nil {
		return nil
	}
	return renderTrace(w.concretizeTrace(env))
}

type Engine struct {
	prog    *ssa.Program
	rootPkg *ssa.Package
	entry   *ssa.Function
	hookFn  *ssa.Function
	opts    Options
	queue   *queue

	mu         sync.Mutex
	violations []*Violation
	violSeen   map[string]bool
	notes      []string
	noteSeen   map[string]bool
	used       map[string]bool
	reach      map[string]int64
	stats      Stats
	fnCount    map[string]int
	unsupported map[string]int
	budgetHits map[string]int
	allocClasses map[string]*allocClass
	samples    []sample
	stopFlag   atomic.Bool
	pathCount  atomic.Int64
	start      time.Time
	confirmErrors int
	solverTime map[string]time.Duration
	solverQueries map[string]int
	solverErrors int
	errType    any
	initialPrefix []int32
	profile    map[string]int
	dbg        map[string]string
}

func (e *Engine) stopped() bool { return e.stopFlag.Load() }

func (e *Engine) note(s string) {
	e.mu.Lock()
	defer e.mu.Unlock()
	if e.noteSeen[s] || len(e.notes) > 200 {
		return
	}
	e.noteSeen[s] = true
	e.notes = append(e.notes, s)
}

func (e *Engine) dbgSet(p []int32, s string) {
	e.mu.Lock()
	if e.dbg == nil {
		e.dbg = map[string]string{}
	}
	e.dbg[fmt.Sprint(p)] = s
	e.mu.Unlock()
}

func (e *Engine) dbgFor(p []int32) string {
	e.mu.Lock()
	defer e.mu.Unlock()
	return e.dbg[fmt.Sprint(p)]
}

func (e *Engine) prof(k string) {
	e.mu.Lock()
	if e.profile == nil {
		e.profile = map[string]int{}
	}
	e.profile[k]++
	e.mu.Unlock()
}

func (e *Engine) usedNote(k string) bool {
	e.mu.Lock()
	defer e.mu.Unlock()
	if e.used[k] {
		return false
	}
	e.used[k] = true
	return true
}

func (e *Engine) recordAllocClass(class string, n int, log []string, w *W) {
	e.mu.Lock()
	defer e.mu.Unlock()
	key := class
	c, ok := e.allocClasses[key]
	if !ok {
		e.allocClasses[key] = &allocClass{Count: n, Log: append([]string(nil), log...), Sample: append([]int32(nil), w.decisions...), N: 1}
		return
	}
	c.N++
	if c.Count != n {
		// the same cors-level branch profile with two different counts: the
		// count depends on how the internal scanning loops ran
		w.violationLocked(e, "alloc", fmt.Sprintf("allocation-site count differs within one middleware branch class: %d (%v) vs %d (%v)", c.Count, c.Log, n, log))
	}
}

// ---------------------------------------------------------------- violations

func (w *W) assertCond(c *Term, msg string, pos token.Pos) {
	w.assertsOnPath++
	if w.e.opts.ForceFalse {
		c = w.ts.ff
	}
	if c.IsTrue() {
		w.st.ConcreteAsserts++
		w.oracleHit = false
		return
	}
	if c.IsFalse() {
		w.st.Obligations++
		if w.oracleHit {
			// The assertion negates an engine-only reachability oracle
			// (zzSharesMutable / zzReachesModuleState: exact object identity
			// on the symbolic heap) that just answered true. There is no
			// native observable for it: an engine-level finding. The path
			// goes on, so that the behavioural assertions that follow can
			// produce a natively replayable witness as well.
			w.oracleHit = false
			w.violation("alias", msg, nil)
			return
		}
		w.violation("assert", msg, nil)
		panic(pathEnd{endOK, "assertion failed: " + msg})
	}
	w.oracleHit = false
	if w.known(c) {
		w.st.ImpliedChecks++
		return
	}
	w.obligation(c, "assert", msg)
}

// recordViolation extracts a model of f (just found satisfiable by the
// primary solver in the current scope) and records the counterexample.
func (w *W) recordViolation(kind, msg string, f *Term) {
	key := kind + ":" + msg
	hookedPath := false
	for _, tv := range w.trace {
		if tv.Hook && !(tv.T != nil && tv.T.IsConst() && tv.T.Int() == 0) {
			hookedPath = true
		}
	}
	w.e.mu.Lock()
	seen := w.e.violSeen[key] || (hookedPath && w.e.violSeen[key+":hooked"])
	w.e.mu.Unlock()
	if seen {
		return
	}
	seenT := map[int32]bool{}
	vars := map[string]*Term{}
	for _, tv := range w.trace {
		if tv.Kind == "string" {
			Vars(tv.S.Len, seenT, vars)
			for _, b := range tv.S.B.Bytes {
				if b != nil {
					Vars(b, seenT, vars)
				}
			}
		} else {
			Vars(tv.T, seenT, vars)
		}
	}
	Vars(f, seenT, vars)
	names := make([]string, 0, len(vars))
	for n := range vars {
		names = append(names, n)
	}
	sort.Strings(names)
	var vl []*Term
	for _, n := range names {
		vl = append(vl, vars[n])
	}
	w.sol.Push()
	defer w.sol.Pop()
	w.sol.Assert(f)
	if w.sol.Check() != Sat {
		w.note("model query failed for: " + msg)
		w.st.Inconclusive++
		return
	}
	env, err := w.sol.Values(vl)
	if err != nil {
		w.note("get-value failed: " + err.Error())
		w.st.Inconclusive++
		return
	}
	v := &Violation{Kind: kind, Msg: msg, Harness: w.e.entry.Name(), Decisions: append([]int32(nil), w.decisions...)}
	v.Trace = w.concretizeTrace(env)
	v.Hooked = hookedPath
	if hookedPath {
		// a natively replayable witness of the same violation is still wanted
		key += ":hooked"
	}
	w.e.mu.Lock()
	defer w.e.mu.Unlock()
	if w.e.violSeen[key] {
		return
	}
	w.e.violSeen[key] = true
	w.e.violations = append(w.e.violations, v)
	if len(w.e.violations) >= w.e.opts.MaxViolations {
		w.e.stopFlag.Store(true)
		w.e.queue.stop()
	}
}

func (w *W) violationLocked(e *Engine, kind, msg string) {
	key := kind + ":" + msg
	if e.violSeen[key] {
		return
	}
	e.violSeen[key] = true
	if len(e.violations) >= e.opts.MaxViolations {
		return
	}
	e.violations = append(e.violations, &Violation{Kind: kind, Msg: msg, Harness: e.entry.Name(), Decisions: append([]int32(nil), w.decisions...)})
	if len(e.violations) >= e.opts.MaxViolations {
		e.stopFlag.Store(true)
		e.queue.stop()
	}
}

func (w *W) concretizeTrace(env map[string]uint64) []TraceOut {
	memo := map[int32]uint64{}
	var out []TraceOut
	for _, tv := range w.trace {
		switch tv.Kind {
		case "string":
			n := int(Eval(tv.S.Len, env, memo))
			raw := make([]byte, n)
			for i := 0; i < n; i++ {
				raw[i] = 'a'
				if tv.S.B.Bytes != nil && i < len(tv.S.B.Bytes) && tv.S.B.Bytes[i] != nil {
					raw[i] = byte(Eval(tv.S.B.Bytes[i], env, memo))
				} else if tv.S.B.Bytes == nil {
					if v, ok := env[fmt.Sprintf("%s_b%d", tv.S.B.Name, i)]; ok {
						raw[i] = byte(v)
					}
				}
			}
			out = append(out, TraceOut{Kind: "s", S: fmt.Sprintf("%x", raw), Hook: tv.Hook})
		case "bool":
			out = append(out, TraceOut{Kind: "b", B: Eval(tv.T, env, memo) == 1, Hook: tv.Hook})
		case "byte":
			out = append(out, TraceOut{Kind: "i", I: int64(Eval(tv.T, env, memo)), Hook: tv.Hook})
		default:
			out = append(out, TraceOut{Kind: "i", I: sext64(Eval(tv.T, env, memo), tv.T.W), Hook: tv.Hook})
		}
	}
	return out
}

// ---------------------------------------------------------------- path driver

func (w *W) runPath(prefix []int32) {
	e := w.e
	w.pc = w.pc[:0]
	w.asserted = 0
	w.prefix = prefix
	w.pos = 0
	w.decisions = w.decisions[:0]
	w.steps = 0
	w.depth = 0
	w.trace = w.trace[:0]
	w.reach = map[string]bool{}
	w.nextVar = 0
	w.locks = map[string]*lockState{}
	w.shared = map[*Obj]string{}
	w.countAllocs = false
	w.allocs = 0
	w.pathViol = false
	w.symbolicPath = false
	w.assertsOnPath = 0
	w.guard = nil
	w.noFork = false
	w.inHook = false
	w.stubMode = 0
	w.allocMute = 0
	w.notes = w.notes[:0]
	w.pcSet = map[int32]struct{}{}
	w.absReset()
	w.obligs = w.obligs[:0]
	w.nextOb = 0
	w.pviols = w.pviols[:0]
	w.sol.Push()
	end := pathEnd{kind: endOK}
	func() {
		defer func() {
			if r := recover(); r != nil {
				switch x := r.(type) {
				case pathEnd:
					end = x
				case unsupported:
					end = pathEnd{endUnsupported, x.msg}
				case mergeAbort:
					end = pathEnd{endUnsupported, "stray merge abort: " + x.why}
				default:
					panic(r)
				}
			}
		}()
		w.callFunc(e.entry, nil, nil, token.NoPos)
		for k, l := range w.locks {
			if l.writer || l.readers > 0 {
				w.violation("lock", "lock still held at the end of the harness: "+k, nil)
			}
		}
	}()
	w.sol.Pop()
	if end.kind != endStop {
		w.flush()
	}
	w.undoInitWrites()
	w.st.Paths++
	w.st.Steps += int64(w.steps)
	if w.symbolicPath {
		w.st.SymbolicPaths++
		if w.assertsOnPath > 0 {
			w.st.NontrivialPaths++
		}
	}
	switch end.kind {
	case endOK:
		w.st.PathsOK++
	case endAssumeFalse:
		w.st.AssumeFalse++
	case endInfeasible:
		w.st.Infeasible++
	case endBudget:
		w.st.Budget++
		e.mu.Lock()
		e.budgetHits[end.msg]++
		e.mu.Unlock()
	case endUnsupported:
		w.st.Unsupported++
		e.mu.Lock()
		e.unsupported[end.msg]++
		e.mu.Unlock()
	}
	if end.kind == endOK || end.kind == endAssumeFalse {
		e.mu.Lock()
		for t := range w.reach {
			e.reach[t]++
		}
		take := -1
		if end.kind == endOK && w.symbolicPath && w.assertsOnPath > 0 {
			if len(e.samples) < 4 {
				take = len(e.samples)
				e.samples = append(e.samples, sample{})
			} else if len(w.pc) > e.samples[3].PCSize {
				take = 3 // the last slot keeps the path with the longest path condition seen
			}
			if take >= 0 {
				e.samples[take] = sample{Decisions: append([]int32(nil), w.decisions...), PCSize: len(w.pc), Asserts: w.assertsOnPath}
			}
		}
		e.mu.Unlock()
		if take >= 0 && take < 3 || (take == 3 && len(w.pc) > 8) {
			// render one satisfying assignment of this path condition as concrete inputs
			if in := w.sampleInputs(); in != nil {
				e.mu.Lock()
				if take < len(e.samples) && e.samples[take].PCSize == len(w.pc) {
					e.samples[take].Rendered = in
				}
				e.mu.Unlock()
			}
		}
	}
	if w.ts.Size() > 400000 {
		w.ts.ResetComposite()
		clear(w.constCache)
	}
}

func (e *Engine) worker(id int, wg *sync.WaitGroup, errs chan<- error) {
	defer wg.Done()
	w, err := newW(e, id)
	if err != nil {
		errs <- err
		e.queue.stop()
		return
	}
	defer w.close()
	if e.opts.SolverLog != "" && id == 0 {
		f, _ := os.Create(e.opts.SolverLog)
		w.sol.log = f
		defer f.Close()
	}
	defer func() {
		if r := recover(); r != nil {
			errs <- fmt.Errorf("worker %d: engine panic: %v\n%s", id, r, stackTrace())
			e.stopFlag.Store(true)
			e.queue.stop()
		}
		e.mu.Lock()
		e.stats.add(&w.st)
		for fn, n := range w.fnCount {
			if n > 0 {
				e.fnCount[fn.String()] += n
			}
		}
		for i, s := range []*Solver{w.sol, w.sol2, w.sol3} {
			if s != nil {
				e.solverTime[s.name] += s.Time
				e.solverQueries[s.name] += s.Queries
				if i == 0 {
					e.solverErrors += s.Errors
				} else {
					// an error line or a dead process of a *confirming* solver
					// leaves queries unconfirmed (each was retried on a fresh
					// process, see confirm); it does not make the run inconclusive
					e.confirmErrors += s.Errors
				}
			}
		}
		e.mu.Unlock()
	}()
	for {
		p, ok := e.queue.pop()
		if !ok {
			return
		}
		w.runPath(p)
		e.queue.finish()
		n := e.pathCount.Add(1)
		if e.opts.MaxPaths > 0 && n >= e.opts.MaxPaths {
			e.note(fmt.Sprintf("path limit %d reached: exploration truncated", e.opts.MaxPaths))
			e.stopFlag.Store(true)
			e.queue.stop()
		}
		if e.opts.Deadline > 0 && time.Since(e.start) > e.opts.Deadline {
			e.note("deadline reached: exploration truncated")
			e.stopFlag.Store(true)
			e.queue.stop()
		}
	}
}

func (e *Engine) run() error {
	e.queue = newQueue()
	e.violSeen = map[string]bool{}
	e.noteSeen = map[string]bool{}
	e.used = map[string]bool{}
	e.reach = map[string]int64{}
	e.fnCount = map[string]int{}
	e.unsupported = map[string]int{}
	e.budgetHits = map[string]int{}
	e.allocClasses = map[string]*allocClass{}
	e.solverTime = map[string]time.Duration{}
	e.solverQueries = map[string]int{}
	e.start = time.Now()
	e.queue.push(e.initialPrefix)
	var wg sync.WaitGroup
	errs := make(chan error, e.opts.Workers+1)
	for i := 0; i < e.opts.Workers; i++ {
		wg.Add(1)
		go e.worker(i, &wg, errs)
	}
	if e.opts.Verbose {
		go func() {
			for !e.stopped() {
				time.Sleep(5 * time.Second)
				e.queue.mu.Lock()
				ql, done := len(e.queue.items), e.queue.done
				e.queue.mu.Unlock()
				if done {
					return
				}
				fmt.Fprintf(os.Stderr, "  [%s] paths=%d queue=%d\n", e.entry.Name(), e.pathCount.Load(), ql)
			}
		}()
	}
	wg.Wait()
	close(errs)
	var msgs []string
	for err := range errs {
		msgs = append(msgs, err.Error())
	}
	if len(msgs) > 0 {
		return fmt.Errorf("%s", strings.Join(msgs, "\n"))
	}
	return nil
}
