package main

import (
	"flag"
	"fmt"
	"os"
	"runtime"
	"sort"
	"strings"
	"time"
)

func defaultOptions() Options {
	return Options{
		Solver: "z3-new", Solver2: "z3", TimeoutMs: 20000,
		Workers: runtime.NumCPU(), MaxSteps: 3_000_000, Merge: true, MergeStrings: true,
		MaxViolations: 1, ConfirmEvery: 8,
	}
}

// runHarness explores one harness entry function and returns the engine with its results.
func runHarness(hpkg, entry string, opts Options) (*Engine, error) {
	ld, err := loadProgram(hpkg)
	if err != nil {
		return nil, err
	}
	fn := ld.pkg.Func(entry)
	if fn == nil {
		return nil, fmt.Errorf("harness entry %s not found in %s", entry, ld.pkg.Pkg.Path())
	}
	e := &Engine{prog: ld.prog, rootPkg: ld.pkg, entry: fn, opts: opts}
	e.hookFn = ld.pkg.Func("zzHookUnlock")
	if err := e.run(); err != nil {
		return e, err
	}
	return e, nil
}

func (e *Engine) summary() string {
	var sb strings.Builder
	s := e.stats
	fmt.Fprintf(&sb, "harness %s: paths=%d ok=%d assume-false=%d infeasible=%d budget=%d unsupported=%d\n",
		e.entry.Name(), s.Paths, s.PathsOK, s.AssumeFalse, s.Infeasible, s.Budget, s.Unsupported)
	fmt.Fprintf(&sb, "  forks=%d pruned=%d feas-queries=%d obligations=%d discharged=%d inconclusive=%d concrete-asserts=%d merges=%d merge-aborts=%d steps=%d\n",
		s.Forks, s.Pruned, s.FeasQueries, s.Obligations, s.Discharged, s.Inconclusive, s.ConcreteAsserts, s.Merges, s.MergeAborts, s.Steps)
	fmt.Fprintf(&sb, "  batch-queries=%d batch-time=%.2fs implied-checks=%d pruned-by-intervals=%d interval-crosschecks=%d\n", s.BatchQueries, float64(s.BatchNs)/1e9, s.ImpliedChecks, s.PrunedAbs, s.AbsCrossChecks)
	fmt.Fprintf(&sb, "  confirm-queries=%d confirm-unknown=%d disagreements=%d unknowns=%d solver-errors=%d wall=%.1fs\n",
		s.ConfirmQueries, s.ConfirmUnknown, s.Disagreements, s.Unknowns, e.solverErrors, time.Since(e.start).Seconds())
	for n, d := range e.solverTime {
		fmt.Fprintf(&sb, "  solver %s: %d queries, %.2fs\n", n, e.solverQueries[n], d.Seconds())
	}
	var tags []string
	for t, n := range e.reach {
		tags = append(tags, fmt.Sprintf("%s=%d", t, n))
	}
	sort.Strings(tags)
	fmt.Fprintf(&sb, "  reach: %s\n", strings.Join(tags, " "))
	for m, n := range e.unsupported {
		fmt.Fprintf(&sb, "  UNSUPPORTED x%d: %s\n", n, m)
	}
	for m, n := range e.budgetHits {
		fmt.Fprintf(&sb, "  BUDGET x%d: %s\n", n, m)
	}
	for _, n := range e.notes {
		fmt.Fprintf(&sb, "  note: %s\n", n)
	}
	if e.profile != nil {
		type kv struct {
			k string
			n int
		}
		var l []kv
		for k, n := range e.profile {
			l = append(l, kv{k, n})
		}
		sort.Slice(l, func(i, j int) bool { return l[i].n > l[j].n })
		for i, x := range l {
			if i > 40 {
				break
			}
			fmt.Fprintf(&sb, "  PROF %6d %s\n", x.n, x.k)
		}
	}
	for _, v := range e.violations {
		fmt.Fprintf(&sb, "  VIOLATION-CANDIDATE %s: %s decisions=%v trace=%v\n", v.Kind, v.Msg, v.Decisions, v.Trace)
	}
	return sb.String()
}

func main() {
	if len(os.Args) < 2 {
		fmt.Fprintln(os.Stderr, "usage: gosym run|check|replay|selftest ...")
		os.Exit(2)
	}
	switch os.Args[1] {
	case "run":
		fs := flag.NewFlagSet("run", flag.ExitOnError)
		opts := defaultOptions()
		pkg := fs.String("pkg", "cors", "harness package")
		entry := fs.String("entry", "", "harness entry function")
		tier := fs.String("tier", "quick", "quick|thorough")
		fs.IntVar(&opts.Workers, "workers", opts.Workers, "workers")
		fs.BoolVar(&opts.Merge, "merge", true, "if-conversion")
		fs.BoolVar(&opts.Verbose, "v", false, "progress")
		fs.BoolVar(&opts.ForceFalse, "force-false", false, "vacuity twin")
		fs.StringVar(&opts.SolverLog, "solver-log", "", "write worker 0's solver input here")
		fs.StringVar(&opts.Solver, "solver", opts.Solver, "primary solver")
		fs.StringVar(&opts.Solver2, "solver2", opts.Solver2, "confirming solver")
		fs.IntVar(&opts.MaxViolations, "max-violations", 1, "stop after this many")
		fs.Int64Var(&opts.MaxPaths, "max-paths", 0, "path limit")
		doReplay := fs.Bool("replay", false, "replay violation candidates natively")
		fs.BoolVar(&opts.Profile, "profile", false, "histogram of solver-checked obligations")
		fs.BoolVar(&opts.CheckAbstract, "check-abstract", false, "cross-check interval verdicts against the solver")
		fs.Parse(os.Args[2:])
		if *tier == "thorough" {
			opts.Tier = 1
			opts.ConfirmEvery = 1
		}
		e, err := runHarness(*pkg, *entry, opts)
		if e != nil && e.stats.Paths > 0 {
			fmt.Print(e.summary())
		}
		if err != nil {
			fmt.Fprintln(os.Stderr, "ERROR:", err)
			os.Exit(2)
		}
		if *doReplay && e != nil {
			for _, v := range e.violations {
				path, _ := writeReplayFile("DBG", *tier, HarnessSpec{Pkg: *pkg, Entry: *entry}, v, false)
				rep, out, rerr := nativeReplay(path)
				fmt.Printf("native replay of %q: reproduced=%v err=%v inputs=%v\n%s\n", v.Msg, rep, rerr, renderTrace(v.Trace), tail(out, 2500))
				os.Remove(path)
			}
		}
	case "check":
		os.Exit(cmdCheck(os.Args[2:]))
	case "replay":
		os.Exit(cmdReplay(os.Args[2:]))
	case "selftest":
		os.Exit(cmdSelftest(os.Args[2:]))
	default:
		fmt.Fprintln(os.Stderr, "unknown command", os.Args[1])
		os.Exit(2)
	}
}
