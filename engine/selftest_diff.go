package main

// Translator validation (placeholder until the differential harness lands).
func selftestDiff() int { return 0 }
