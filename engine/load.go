package main

import (
	"fmt"
	"go/types"
	"os"
	"path/filepath"
	"runtime/debug"
	"sort"
	"strings"

	"golang.org/x/tools/go/packages"
	"golang.org/x/tools/go/ssa"
	"golang.org/x/tools/go/ssa/ssautil"
)

const modPath = "github.com/jub0bs/cors"

// The registered commands always run /verif against /repo. The two overrides
// exist only for development: running the checks against a scratch worktree
// that carries a seeded defect (GOSYM_REPO) and keeping that run's evidence,
// replays and build files out of /verif (GOSYM_VERIF; must contain harness/
// and known_findings.json).
var (
	repoDir  = envOr("GOSYM_REPO", "/repo")
	verifDir = envOr("GOSYM_VERIF", "/verif")
)

func envOr(k, d string) string {
	if v := os.Getenv(k); v != "" {
		return v
	}
	return d
}

// harness package directory (under /verif/harness) -> directory inside /repo
var pkgDirs = map[string]string{
	"cors":      "",
	"origins":   "internal/origins",
	"headers":   "internal/headers",
	"cfgerrors": "cfgerrors",
	"util":      "internal/util",
	"methods":   "internal/methods",
}

func pkgImportPath(hpkg string) string {
	d := pkgDirs[hpkg]
	if d == "" {
		return modPath
	}
	return modPath + "/" + d
}

func stackTrace() string { return string(debug.Stack()) }

// overlayFor builds the overlay that injects the harness sources of one
// harness package (plus the primitive declarations) into /repo.
// mode: "sym" (body-less primitives) or "replay" (primitives with bodies).
func overlayFor(hpkg, mode string) (map[string]string, error) {
	srcDir := filepath.Join(verifDir, "harness", hpkg)
	ents, err := os.ReadDir(srcDir)
	if err != nil {
		return nil, err
	}
	dst := filepath.Join(repoDir, pkgDirs[hpkg])
	ov := map[string]string{}
	for _, e := range ents {
		n := e.Name()
		if !strings.HasSuffix(n, ".go") {
			continue
		}
		ov[filepath.Join(dst, "zz_verif_"+n)] = filepath.Join(srcDir, n)
	}
	pkgName := hpkg
	tmpl := filepath.Join(verifDir, "harness", "prims_"+mode+".go.tmpl")
	raw, err := os.ReadFile(tmpl)
	if err != nil {
		return nil, err
	}
	gen := filepath.Join(verifDir, "build", "prims_"+mode+"_"+hpkg+".go")
	os.MkdirAll(filepath.Dir(gen), 0o755)
	if err := os.WriteFile(gen, []byte(strings.ReplaceAll(string(raw), "PKGNAME", pkgName)), 0o644); err != nil {
		return nil, err
	}
	ov[filepath.Join(dst, "zz_verif_prims.go")] = gen
	return ov, nil
}

type loaded struct {
	prog *ssa.Program
	pkg  *ssa.Package
}

func loadProgram(hpkg string) (*loaded, error) {
	ov, err := overlayFor(hpkg, "sym")
	if err != nil {
		return nil, err
	}
	overlay := map[string][]byte{}
	for virt, real := range ov {
		b, err := os.ReadFile(real)
		if err != nil {
			return nil, err
		}
		overlay[virt] = b
	}
	cfg := &packages.Config{
		Mode:    packages.LoadAllSyntax,
		Dir:     repoDir,
		Overlay: overlay,
		Env:     append(os.Environ(), "GOFLAGS=-mod=mod", "GOPROXY=off", "GOSUMDB=off", "GOTOOLCHAIN=local"),
	}
	pkgs, err := packages.Load(cfg, "./...")
	if err != nil {
		return nil, err
	}
	var errs []string
	packages.Visit(pkgs, nil, func(p *packages.Package) {
		for _, e := range p.Errors {
			errs = append(errs, e.Error())
		}
	})
	if len(errs) > 0 {
		sort.Strings(errs)
		return nil, fmt.Errorf("type errors while loading /repo with harness overlay:\n  %s", strings.Join(errs, "\n  "))
	}
	prog, spkgs := ssautil.AllPackages(pkgs, ssa.InstantiateGenerics)
	prog.Build()
	want := pkgImportPath(hpkg)
	for _, sp := range spkgs {
		if sp != nil && sp.Pkg.Path() == want {
			return &loaded{prog: prog, pkg: sp}, nil
		}
	}
	return nil, fmt.Errorf("package %s not found", want)
}

func (e *Engine) errorStringType() types.Type {
	e.mu.Lock()
	defer e.mu.Unlock()
	if e.errType != nil {
		return e.errType.(types.Type)
	}
	for _, p := range e.prog.AllPackages() {
		if p.Pkg.Path() == "errors" {
			if t := p.Type("errorString"); t != nil {
				e.errType = types.NewPointer(t.Type())
				return e.errType.(types.Type)
			}
		}
	}
	panic("errors.errorString not found")
}
