package main

import "fmt"

const maxSymIndexWidth = 4096

func (w *W) strConst(s string) Str {
	b, ok := w.strCache[s]
	if !ok {
		w.nextStr++
		b = &StrBase{ID: w.nextStr, Conc: s}
		if len(w.strCache) < 1<<16 {
			w.strCache[s] = b
		}
	}
	return Str{B: b, Off: w.ts.Int64(0), Len: w.ts.Int64(int64(len(s)))}
}

// newSymStr creates a string of symbolic bytes and symbolic length <= max.
func (w *W) newSymStr(name string, max int) Str {
	w.nextStr++
	b := &StrBase{ID: w.nextStr, Sym: true, Max: max, Name: name}
	if max <= maxSymIndexWidth {
		b.Bytes = make([]*Term, max)
	}
	ln := w.ts.VarBounded(name+"_len", 64, uint64(max))
	// the bound is also built into the variable's range, so the constraint has
	// to be constructed without folding for the solver to see it
	w.addPC(w.ts.mk(OpUle, 0, 0, "", ln, w.ts.Int64(int64(max)), nil))
	return Str{B: b, Off: w.ts.Int64(0), Len: ln}
}

func (w *W) strFromBytes(bs []*Term) Str {
	all := true
	for _, b := range bs {
		if !b.IsConst() {
			all = false
			break
		}
	}
	if all {
		raw := make([]byte, len(bs))
		for i, b := range bs {
			raw[i] = byte(b.Val)
		}
		return w.strConst(string(raw))
	}
	w.nextStr++
	b := &StrBase{ID: w.nextStr, Sym: true, Max: len(bs), Bytes: bs, Name: fmt.Sprintf("mix%d", w.nextStr)}
	return Str{B: b, Off: w.ts.Int64(0), Len: w.ts.Int64(int64(len(bs)))}
}

func (w *W) baseByte(b *StrBase, k int) *Term {
	if !b.Sym {
		if k < 0 || k >= len(b.Conc) {
			panic(fmt.Sprintf("baseByte out of range %d/%d", k, len(b.Conc)))
		}
		return w.ts.BV(8, uint64(b.Conc[k]))
	}
	if k < 0 || k >= b.Max {
		panic(fmt.Sprintf("baseByte sym out of range %d/%d", k, b.Max))
	}
	if b.Bytes == nil {
		// huge lazily-materialised string: bytes are unconstrained variables
		return w.ts.Var(fmt.Sprintf("%s_b%d", b.Name, k), 8)
	}
	if b.Bytes[k] == nil {
		b.Bytes[k] = w.ts.Var(fmt.Sprintf("%s_b%d", b.Name, k), 8)
	}
	return b.Bytes[k]
}

func (b *StrBase) size() int {
	if b.Sym {
		return b.Max
	}
	return len(b.Conc)
}

// conc returns the Go string if the value is fully concrete.
func (w *W) conc(s Str) (string, bool) {
	if !s.Off.IsConst() || !s.Len.IsConst() {
		return "", false
	}
	off, n := int(s.Off.Val), int(s.Len.Val)
	if !s.B.Sym {
		if off < 0 || n < 0 || off+n > len(s.B.Conc) {
			return "", false // only under infeasible speculation
		}
		return s.B.Conc[off : off+n], true
	}
	if s.B.Bytes == nil {
		return "", n == 0
	}
	if n == 0 {
		return "", true
	}
	if off < 0 || n < 0 || off+n > len(s.B.Bytes) {
		return "", false // only under infeasible speculation
	}
	raw := make([]byte, n)
	for i := 0; i < n; i++ {
		t := s.B.Bytes[off+i]
		if t == nil || !t.IsConst() {
			return "", false
		}
		raw[i] = byte(t.Val)
	}
	return string(raw), true
}

// maxLen is a static upper bound on len(s).
func (w *W) maxLen(s Str) int {
	if s.Len.IsConst() {
		return int(s.Len.Val)
	}
	n := s.B.size()
	if s.Off.IsConst() {
		n -= int(s.Off.Val)
	}
	// the interval domain may know a tighter bound (e.g. a slice cut to a window)
	if w.rmemo != nil {
		if r := w.rangeOf(s.Len); r.hi < uint64(n) {
			n = int(r.hi)
		}
	}
	return n
}

// strByte returns s[idx]; the caller has established idx < len(s).
func (w *W) strByte(s Str, idx *Term) *Term {
	abs := w.ts.Add(s.Off, idx)
	if abs.IsConst() {
		k := int(abs.Val)
		if k < 0 || k >= s.B.size() {
			// only reachable on infeasible speculation; any value will do
			return w.ts.BV(8, 0)
		}
		return w.baseByte(s.B, k)
	}
	n := s.B.size()
	if n == 0 {
		return w.ts.BV(8, 0)
	}
	// positions the index can take according to the interval domain
	lo, hi := 0, n-1
	if w.rmemo != nil {
		r := w.rangeOf(abs)
		if r.lo > uint64(lo) && r.lo <= uint64(hi) {
			lo = int(r.lo)
		}
		if r.hi < uint64(hi) {
			hi = int(r.hi)
		}
	}
	if hi-lo+1 > maxSymIndexWidth {
		unsupp("symbolic index into string over %d positions", hi-lo+1)
	}
	res := w.baseByte(s.B, hi)
	for k := hi - 1; k >= lo; k-- {
		res = w.ts.Ite(w.ts.Eq(abs, w.ts.Int64(int64(k))), w.baseByte(s.B, k), res)
	}
	return res
}

func (w *W) strByteAt(s Str, i int) *Term { return w.strByte(s, w.ts.Int64(int64(i))) }

func (w *W) strEq(a, b Str) *Term {
	ts := w.ts
	if ca, ok := w.conc(a); ok {
		if cb, ok := w.conc(b); ok {
			return ts.Bool(ca == cb)
		}
	}
	if a.B == b.B && a.Off == b.Off {
		return ts.Eq(a.Len, b.Len)
	}
	lenEq := ts.Eq(a.Len, b.Len)
	if lenEq.IsFalse() {
		return lenEq
	}
	n := min(w.maxLen(a), w.maxLen(b))
	if n > maxSymIndexWidth {
		unsupp("string comparison over %d positions", n)
	}
	res := lenEq
	for i := 0; i < n; i++ {
		it := ts.Int64(int64(i))
		in := ts.Ult(it, a.Len)
		if in.IsFalse() {
			break
		}
		e := ts.Eq(w.strByte(a, it), w.strByte(b, it))
		res = ts.And(res, ts.Implies(in, e))
		if res.IsFalse() {
			return res
		}
	}
	return res
}

func (w *W) strLess(a, b Str) *Term {
	ts := w.ts
	if ca, ok := w.conc(a); ok {
		if cb, ok := w.conc(b); ok {
			return ts.Bool(ca < cb)
		}
	}
	n := min(w.maxLen(a), w.maxLen(b))
	if n > maxSymIndexWidth {
		unsupp("string comparison over %d positions", n)
	}
	res := ts.Ult(a.Len, b.Len)
	for i := n - 1; i >= 0; i-- {
		it := ts.Int64(int64(i))
		aIn := ts.Ult(it, a.Len)
		bIn := ts.Ult(it, b.Len)
		var inner *Term
		if aIn.IsFalse() || bIn.IsFalse() {
			inner = ts.ff
		} else {
			ab, bb := w.strByte(a, it), w.strByte(b, it)
			inner = ts.Ite(ts.Ult(ab, bb), ts.tt, ts.Ite(ts.Ult(bb, ab), ts.ff, res))
		}
		// a exhausted at i: a<b iff b has a byte at i; b exhausted (a not): false
		res = ts.Ite(ts.Not(aIn), bIn, ts.Ite(ts.Not(bIn), ts.ff, inner))
	}
	return res
}

// strBytes returns the byte terms of a string of concrete length.
func (w *W) strBytes(s Str, what string) []*Term {
	if !s.Len.IsConst() {
		// a symbolic length is made concrete by forking over its possible values
		s.Len = w.ts.Int64(w.concretizeInt(s.Len, 0, int64(w.maxLen(s)), "string length for "+what))
	}
	n := int(s.Len.Val)
	out := make([]*Term, n)
	for i := range out {
		out[i] = w.strByteAt(s, i)
	}
	return out
}

func (w *W) strConcat(a, b Str) Str {
	if ca, ok := w.conc(a); ok {
		if cb, ok := w.conc(b); ok {
			return w.strConst(ca + cb)
		}
		if ca == "" {
			return b
		}
	}
	if cb, ok := w.conc(b); ok && cb == "" {
		return a
	}
	w.allocEvent("string concatenation")
	// a symbolic length is made concrete by forking over its possible values
	if !a.Len.IsConst() {
		a.Len = w.ts.Int64(w.concretizeInt(a.Len, 0, int64(w.maxLen(a)), "length of a concatenation operand"))
	}
	if !b.Len.IsConst() {
		b.Len = w.ts.Int64(w.concretizeInt(b.Len, 0, int64(w.maxLen(b)), "length of a concatenation operand"))
	}
	return w.strFromBytes(append(w.strBytes(a, "concatenation"), w.strBytes(b, "concatenation")...))
}

func (w *W) strSlice(s Str, lo, hi *Term) Str {
	return Str{B: s.B, Off: w.ts.Add(s.Off, lo), Len: w.ts.Sub(hi, lo)}
}

// describeStr renders a string for diagnostics.
func (w *W) describeStr(s Str) string {
	if c, ok := w.conc(s); ok {
		return fmt.Sprintf("%q", c)
	}
	return fmt.Sprintf("<sym %s off=%s len=%s>", s.B.Name, s.Off, s.Len)
}
