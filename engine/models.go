package main

// Intrinsics: models, native thunks and harness primitives. Every entry of
// this file is part of the claim and is echoed into the evidence's
// assumptions when used.

import (
	"os"
	"fmt"
	"go/token"
	"go/types"
	"net/netip"
	"net/textproto"
	"strconv"
	"strings"

	"golang.org/x/net/idna"
	"golang.org/x/net/publicsuffix"
	"golang.org/x/tools/go/ssa"
)

type intrinsic func(w *W, fn *ssa.Function, args []Value, pos token.Pos) Value

var intrinsics map[string]intrinsic

var intrinsicNotes = map[string]string{
	"strings.IndexByte":  "model: strings.IndexByte forks over the position of the first match (assembly in the real build)",
	"strings.ToLower":    "model: strings.ToLower is a bytewise ASCII case map after proving all bytes < 0x80 under the path condition; native on concrete strings",
	"strings.ToUpper":    "model: strings.ToUpper is a bytewise ASCII case map after proving all bytes < 0x80 under the path condition; native on concrete strings",
	"strings.Join":       "model: strings.Join is concatenation (concrete lengths on each path)",
	"strings.Split":      "native: strings.Split on concrete strings; symbolic content forks on separator positions",
	"strconv.Itoa":       "native: strconv.Itoa on concrete values only",
	"strconv.Atoi":       "native: strconv.Atoi on concrete values only",
	"fmt.Sprintf":        "native: fmt.Sprintf on concrete arguments; with a symbolic argument only the literal prefix of the format is kept",
	"strings.Builder":    "model: strings.Builder's methods are interpreted from their real SSA (buf grows by append, growth counted as an allocation-site event) except copyCheck (no-op: the self-pointer trick needs unsafe) and String (the bytes of buf, no allocation, as in the real implementation)",
	"strings.native":     "native: strings.Contains/Index/LastIndex/EqualFold/Count on concrete arguments only",
	"http.Header":        "model: net/http.Header.{Add,Set,Get,Del,Values} over the map representation, keys canonicalised natively",
	"sync.RWMutex":       "model: sync.RWMutex/Mutex as a lock-state object (no blocking, no scheduler)",
	"idna":               "native: golang.org/x/net/idna profile construction and ToASCII run natively on concrete hosts",
	"netip":              "native: net/netip.ParseAddr and Addr methods run natively on concrete hosts",
	"publicsuffix":       "native: golang.org/x/net/publicsuffix.PublicSuffix runs natively on concrete hosts",
	"stub-idna":          "stub: idna.Profile.ToASCII on a symbolic host is a nondeterministic (mode 1) or always-succeeding (mode 2) stub: IDNA label semantics are outside the symbolic claim",
	"stub-psl":           "stub: publicsuffix.PublicSuffix on a symbolic host answers nondeterministically",
	"stub-netip":         "stub: netip.ParseAddr and the Addr predicates on a symbolic host are nondeterministic (mode 1) or canonical/unzoned/unmapped (mode 2) stubs: IP-literal syntax is outside the symbolic claim",
}

func init() {
	intrinsics = map[string]intrinsic{
		"strings.IndexByte":                      iIndexByte,
		"internal/bytealg.IndexByteString":       iIndexByte,
		"internal/stringslite.IndexByte":         iIndexByte,
		"strings.ToLower":                        iToLower,
		"strings.ToUpper":                        iToUpper,
		"strings.Join":                           iJoin,
		"strings.Contains":                       iStringsNative2,
		"strings.Index":                          iStringsNative2,
		"strings.LastIndex":                      iStringsNative2,
		"strings.EqualFold":                      iStringsNative2,
		"strings.Count":                          iStringsNative2,
		"strings.Split":                          iSplit,
		"strconv.Itoa":                           iItoa,
		"strconv.Atoi":                           iAtoi,
		"fmt.Sprintf":                            iSprintf,
		"fmt.Sprint":                             iSprint,
		"(net/http.Header).Add":                  iHeaderAdd,
		"(net/http.Header).Set":                  iHeaderSet,
		"(net/http.Header).Get":                  iHeaderGet,
		"(net/http.Header).Del":                  iHeaderDel,
		"(net/http.Header).Values":               iHeaderValues,
		"net/http.CanonicalHeaderKey":            iCanonicalKey,
		"net/textproto.CanonicalMIMEHeaderKey":   iCanonicalKey,
		"(*strings.Builder).copyCheck":           func(w *W, fn *ssa.Function, a []Value, p token.Pos) Value { w.use("strings.Builder"); return nil },
		"(*strings.Builder).String":              iBuilderString,
		"(*sync.RWMutex).Lock":                   iLock,
		"(*sync.RWMutex).Unlock":                 iUnlock,
		"(*sync.RWMutex).RLock":                  iRLock,
		"(*sync.RWMutex).RUnlock":                iRUnlock,
		"(*sync.Mutex).Lock":                     iLock,
		"(*sync.Mutex).Unlock":                   iUnlock,
		"golang.org/x/net/idna.New":              iIdnaNew,
		"golang.org/x/net/idna.BidiRule":         func(w *W, fn *ssa.Function, a []Value, p token.Pos) Value { w.use("idna"); return Native{idna.BidiRule()} },
		"golang.org/x/net/idna.ValidateLabels":   func(w *W, fn *ssa.Function, a []Value, p token.Pos) Value { return Native{idna.ValidateLabels(w.cbool(a[0]))} },
		"golang.org/x/net/idna.StrictDomainName": func(w *W, fn *ssa.Function, a []Value, p token.Pos) Value { return Native{idna.StrictDomainName(w.cbool(a[0]))} },
		"golang.org/x/net/idna.VerifyDNSLength":  func(w *W, fn *ssa.Function, a []Value, p token.Pos) Value { return Native{idna.VerifyDNSLength(w.cbool(a[0]))} },
		"golang.org/x/net/idna.MapForLookup":     func(w *W, fn *ssa.Function, a []Value, p token.Pos) Value { return Native{idna.MapForLookup()} },
		"golang.org/x/net/idna.Transitional":     func(w *W, fn *ssa.Function, a []Value, p token.Pos) Value { return Native{idna.Transitional(w.cbool(a[0]))} },
		"golang.org/x/net/idna.CheckHyphens":     func(w *W, fn *ssa.Function, a []Value, p token.Pos) Value { return Native{idna.CheckHyphens(w.cbool(a[0]))} },
		"golang.org/x/net/idna.CheckJoiners":     func(w *W, fn *ssa.Function, a []Value, p token.Pos) Value { return Native{idna.CheckJoiners(w.cbool(a[0]))} },
		"golang.org/x/net/idna.RemoveLeadingDots": func(w *W, fn *ssa.Function, a []Value, p token.Pos) Value { return Native{idna.RemoveLeadingDots(w.cbool(a[0]))} },
		"(*golang.org/x/net/idna.Profile).ToASCII": iIdnaToASCII,
		"golang.org/x/net/publicsuffix.PublicSuffix": iPublicSuffix,
		"golang.org/x/net/publicsuffix.EffectiveTLDPlusOne": iETLDPlusOne,
		"net/netip.ParseAddr":                    iParseAddr,
		"(net/netip.Addr).Zone":                  iAddrMethod,
		"(net/netip.Addr).Is4In6":                iAddrMethod,
		"(net/netip.Addr).String":                iAddrMethod,
		"(net/netip.Addr).IsLoopback":            iAddrMethod,
		"(net/netip.Addr).Is4":                   iAddrMethod,
		"(net/netip.Addr).Is6":                   iAddrMethod,
		"(net/netip.Addr).IsValid":               iAddrMethod,
		"(net/netip.Addr).Unmap":                 iAddrMethod,
	}
}

// iBuilderString: (*strings.Builder).String() is unsafe.String over buf in the
// real implementation: the accumulated bytes, without a copy.
func iBuilderString(w *W, fn *ssa.Function, args []Value, pos token.Pos) Value {
	w.use("strings.Builder")
	p, ok := args[0].(Ptr)
	if !ok || p.O == nil {
		w.goPanic("nil pointer dereference (strings.Builder)", pos)
	}
	st, ok := w.load(p, pos).(Struct)
	if !ok || len(st) < 2 {
		unsupp("strings.Builder layout")
	}
	buf, ok := st[1].(Slice)
	if !ok {
		unsupp("strings.Builder.buf is not a slice")
	}
	bs := make([]*Term, buf.Len)
	for i := range bs {
		bs[i] = w.sliceGet(buf, i).(*Term)
	}
	return w.strFromBytes(bs)
}

func (w *W) use(note string) {
	if !w.e.usedNote(note) {
		return
	}
}

func (w *W) intrinsicFor(fn *ssa.Function) intrinsic {
	if ic, ok := w.icache[fn]; ok {
		return ic
	}
	name := fn.String()
	ic := intrinsics[name]
	if ic == nil && fn.Origin() != nil {
		ic = intrinsics[fn.Origin().String()]
	}
	w.icache[fn] = ic
	return ic
}

func (w *W) cbool(v Value) bool {
	t := v.(*Term)
	if !t.IsConst() {
		unsupp("symbolic bool passed to native thunk")
	}
	return t.Val == 1
}

func (w *W) cstr(v Value, what string) string {
	s, ok := w.conc(v.(Str))
	if !ok {
		unsupp("symbolic string passed to %s", what)
	}
	return s
}

// ---------------------------------------------------------------- strings

func iIndexByte(w *W, fn *ssa.Function, args []Value, pos token.Pos) Value {
	ts := w.ts
	s := args[0].(Str)
	c := args[1].(*Term)
	if cs, ok := w.conc(s); ok && c.IsConst() {
		return ts.Int64(int64(strings.IndexByte(cs, byte(c.Val))))
	}
	w.use("strings.IndexByte")
	n := w.maxLen(s)
	if n > 4096 {
		unsupp("IndexByte over %d positions", n)
	}
	// alternative i < n: first match at i; alternative n: no match
	conds := make([]*Term, 0, n+1)
	noneBefore := ts.tt
	for i := 0; i < n; i++ {
		it := ts.Int64(int64(i))
		in := ts.Ult(it, s.Len)
		if in.IsFalse() {
			n = i
			break
		}
		eq := ts.Eq(w.strByte(s, it), c)
		conds = append(conds, ts.And(noneBefore, ts.And(in, eq)))
		noneBefore = ts.And(noneBefore, ts.Implies(in, ts.Not(eq)))
	}
	conds = append(conds, noneBefore)
	k := w.fork(conds, true, "IndexByte")
	if k == len(conds)-1 {
		return ts.Int64(-1)
	}
	return ts.Int64(int64(k))
}

func (w *W) caseMap(s Str, upper bool, what string) Value {
	ts := w.ts
	if cs, ok := w.conc(s); ok {
		var r string
		if upper {
			r = strings.ToUpper(cs)
		} else {
			r = strings.ToLower(cs)
		}
		if r == cs {
			return s
		}
		w.allocEvent(what)
		return w.strConst(r)
	}
	w.use(what)
	n := w.concretizeInt(s.Len, 0, int64(w.maxLen(s)), what+" length")
	s.Len = ts.Int64(n)
	bs := w.strBytes(s, what)
	ascii := ts.tt
	for _, b := range bs {
		ascii = ts.And(ascii, ts.Ult(b, ts.BV(8, 0x80)))
	}
	if !ascii.IsTrue() {
		// The bytewise model is exact for ASCII only. Where non-ASCII bytes
		// are possible the path splits: the all-ASCII side goes on with the
		// model, the other side ends as unsupported (inconclusive, never a
		// pass) — Unicode case mapping is not modelled.
		if w.fork([]*Term{ascii, ts.Not(ascii)}, true, what) == 1 {
			unsupp("%s on a string that contains non-ASCII bytes", what)
		}
	}
	out := make([]*Term, len(bs))
	for i, b := range bs {
		if upper {
			isLower := ts.And(ts.Ule(ts.BV(8, 'a'), b), ts.Ule(b, ts.BV(8, 'z')))
			out[i] = ts.Ite(isLower, ts.Bin(OpSub, b, ts.BV(8, 32)), b)
		} else {
			isUpper := ts.And(ts.Ule(ts.BV(8, 'A'), b), ts.Ule(b, ts.BV(8, 'Z')))
			out[i] = ts.Ite(isUpper, ts.Bin(OpAdd, b, ts.BV(8, 32)), b)
		}
	}
	w.allocEvent(what)
	return w.strFromBytes(out)
}

func iToLower(w *W, fn *ssa.Function, args []Value, pos token.Pos) Value {
	return w.caseMap(args[0].(Str), false, "strings.ToLower")
}

func iToUpper(w *W, fn *ssa.Function, args []Value, pos token.Pos) Value {
	return w.caseMap(args[0].(Str), true, "strings.ToUpper")
}

func iJoin(w *W, fn *ssa.Function, args []Value, pos token.Pos) Value {
	sl := args[0].(Slice)
	sep := args[1].(Str)
	if sl.Len == 0 {
		return w.strConst("")
	}
	if sl.Len == 1 {
		return w.sliceGet(sl, 0)
	}
	w.use("strings.Join")
	var bs []*Term
	sepb := w.strBytes(sep, "strings.Join")
	for i := 0; i < sl.Len; i++ {
		if i > 0 {
			bs = append(bs, sepb...)
		}
		e := w.sliceGet(sl, i).(Str)
		if !e.Len.IsConst() {
			n := w.concretizeInt(e.Len, 0, int64(w.maxLen(e)), "strings.Join element length")
			e.Len = w.ts.Int64(n)
		}
		bs = append(bs, w.strBytes(e, "strings.Join")...)
	}
	w.allocEvent("strings.Join")
	return w.strFromBytes(bs)
}

func iSplit(w *W, fn *ssa.Function, args []Value, pos token.Pos) Value {
	s := args[0].(Str)
	sep := w.cstr(args[1], "strings.Split separator")
	w.use("strings.Split")
	var parts []Value
	if cs, ok := w.conc(s); ok {
		for _, p := range strings.Split(cs, sep) {
			parts = append(parts, w.strConst(p))
		}
	} else {
		if len(sep) != 1 {
			unsupp("strings.Split of symbolic string with separator %q", sep)
		}
		rest := s
		for {
			i := iIndexByte(w, nil, []Value{rest, w.ts.BV(8, uint64(sep[0]))}, pos).(*Term)
			if i.Int() < 0 {
				parts = append(parts, rest)
				break
			}
			parts = append(parts, w.strSlice(rest, w.ts.Int64(0), i))
			rest = w.strSlice(rest, w.ts.Add(i, w.ts.Int64(1)), rest.Len)
		}
	}
	st := types.Typ[types.String]
	res := w.makeSlice(st, len(parts), len(parts), "strings.Split")
	arr := res.O.V.(Array)
	copy(arr, parts)
	return res
}

func iItoa(w *W, fn *ssa.Function, args []Value, pos token.Pos) Value {
	t := args[0].(*Term)
	if !t.IsConst() {
		unsupp("strconv.Itoa of a symbolic value")
	}
	w.use("strconv.Itoa")
	v := t.Int()
	if v < 0 || v > 99 {
		w.allocEvent("strconv.Itoa")
	}
	return w.strConst(strconv.Itoa(int(v)))
}

// iStringsNative2: two-string functions of package strings whose real bodies
// end in assembly (bytealg); run natively on concrete arguments, unsupported
// (hence inconclusive, never a pass) on symbolic ones.
func iStringsNative2(w *W, fn *ssa.Function, args []Value, pos token.Pos) Value {
	a := w.cstr(args[0], fn.String())
	b := w.cstr(args[1], fn.String())
	w.use("strings.native")
	switch fn.Name() {
	case "Contains":
		return w.ts.Bool(strings.Contains(a, b))
	case "Index":
		return w.ts.Int64(int64(strings.Index(a, b)))
	case "LastIndex":
		return w.ts.Int64(int64(strings.LastIndex(a, b)))
	case "EqualFold":
		return w.ts.Bool(strings.EqualFold(a, b))
	case "Count":
		return w.ts.Int64(int64(strings.Count(a, b)))
	}
	unsupp("native thunk for %s", fn.String())
	return nil
}

func iAtoi(w *W, fn *ssa.Function, args []Value, pos token.Pos) Value {
	s := w.cstr(args[0], "strconv.Atoi")
	w.use("strconv.Atoi")
	v, err := strconv.Atoi(s)
	if err != nil {
		et := w.e.errorStringType()
		return Tuple{w.ts.Int64(int64(v)), Iface{T: et, V: Native{err}}}
	}
	return Tuple{w.ts.Int64(int64(v)), Iface{}}
}

func (w *W) nativeArg(v Value) (any, bool) {
	switch x := v.(type) {
	case *Term:
		if !x.IsConst() {
			return nil, false
		}
		if x.W == 0 {
			return x.Val == 1, true
		}
		return int(x.Int()), true
	case Str:
		s, ok := w.conc(x)
		return s, ok
	case Iface:
		if x.T == nil {
			return nil, true
		}
		a, ok := w.nativeArg(x.V)
		if !ok {
			return nil, false
		}
		// keep unsignedness for formatting
		if t, isT := x.V.(*Term); isT && t.W != 0 {
			if _, signed, _ := intKind(x.T); !signed {
				return uint(t.Val), true
			}
		}
		return a, ok
	case Native:
		return x.V, true
	}
	return fmt.Sprintf("<%T>", v), true
}

func iSprintf(w *W, fn *ssa.Function, args []Value, pos token.Pos) Value {
	format := w.cstr(args[0], "fmt.Sprintf format")
	w.use("fmt.Sprintf")
	w.allocEvent("fmt.Sprintf")
	va := args[1].(Slice)
	nat := make([]any, va.Len)
	for i := range nat {
		a, ok := w.nativeArg(w.sliceGet(va, i))
		if !ok {
			prefix := format
			if k := strings.IndexByte(format, '%'); k >= 0 {
				prefix = format[:k]
			}
			return w.strConst(prefix + "<symbolic>")
		}
		nat[i] = a
	}
	return w.strConst(fmt.Sprintf(format, nat...))
}

func iSprint(w *W, fn *ssa.Function, args []Value, pos token.Pos) Value {
	va := args[0].(Slice)
	nat := make([]any, va.Len)
	for i := range nat {
		a, ok := w.nativeArg(w.sliceGet(va, i))
		if !ok {
			return w.strConst("<symbolic>")
		}
		nat[i] = a
	}
	return w.strConst(fmt.Sprint(nat...))
}

// ---------------------------------------------------------------- net/http.Header

func (w *W) canonKey(v Value) Value {
	s := w.cstr(v, "http.Header key")
	return w.strConst(textproto.CanonicalMIMEHeaderKey(s))
}

func iCanonicalKey(w *W, fn *ssa.Function, args []Value, pos token.Pos) Value {
	return w.canonKey(args[0])
}

var strSliceType = types.NewSlice(types.Typ[types.String])

func (w *W) appendStr(dst Slice, v Value, pos token.Pos) Slice {
	need := dst.Len + 1
	if dst.O != nil && need <= dst.Cap {
		res := Slice{O: dst.O, Path: dst.Path, Off: dst.Off, Len: need, Cap: dst.Cap}
		w.store(w.sliceElemPtr(res, dst.Len), v, pos)
		return res
	}
	newCap := max(dst.Cap*2, need)
	res := w.makeSlice(types.Typ[types.String], need, newCap, "http.Header value growth")
	arr := res.O.V.(Array)
	for i := 0; i < dst.Len; i++ {
		arr[i] = w.sliceGet(dst, i)
	}
	arr[dst.Len] = v
	return res
}

func iHeaderAdd(w *W, fn *ssa.Function, args []Value, pos token.Pos) Value {
	w.use("http.Header")
	h := args[0].(*MapObj)
	key := w.canonKey(args[1])
	var cur Slice
	if h != nil {
		if e, ok := h.M[w.mapKey(key)]; ok {
			cur = e.V.(Slice)
		}
	}
	w.mapStore(h, key, w.appendStr(cur, args[2], pos), pos)
	return nil
}

func iHeaderSet(w *W, fn *ssa.Function, args []Value, pos token.Pos) Value {
	w.use("http.Header")
	h := args[0].(*MapObj)
	key := w.canonKey(args[1])
	w.mapStore(h, key, w.appendStr(Slice{}, args[2], pos), pos)
	return nil
}

func iHeaderGet(w *W, fn *ssa.Function, args []Value, pos token.Pos) Value {
	w.use("http.Header")
	h := args[0].(*MapObj)
	if h == nil {
		return w.strConst("")
	}
	key := w.canonKey(args[1])
	if e, ok := h.M[w.mapKey(key)]; ok {
		if sl := e.V.(Slice); sl.Len > 0 {
			return w.sliceGet(sl, 0)
		}
	}
	return w.strConst("")
}

func iHeaderValues(w *W, fn *ssa.Function, args []Value, pos token.Pos) Value {
	w.use("http.Header")
	h := args[0].(*MapObj)
	if h == nil {
		return Slice{}
	}
	key := w.canonKey(args[1])
	if e, ok := h.M[w.mapKey(key)]; ok {
		return e.V
	}
	return Slice{}
}

func iHeaderDel(w *W, fn *ssa.Function, args []Value, pos token.Pos) Value {
	w.use("http.Header")
	h := args[0].(*MapObj)
	w.mapDelete(h, w.canonKey(args[1]), pos)
	return nil
}

// ---------------------------------------------------------------- sync

func (w *W) lockFor(p Ptr) *lockState {
	k := p.Key()
	l, ok := w.locks[k]
	if !ok {
		l = &lockState{}
		w.locks[k] = l
	}
	return l
}

func iLock(w *W, fn *ssa.Function, args []Value, pos token.Pos) Value {
	w.use("sync.RWMutex")
	p := args[0].(Ptr)
	l := w.lockFor(p)
	if l.writer || l.readers > 0 {
		w.violation("lock", "Lock of a mutex already held (self-deadlock)"+w.posStr(pos), nil)
	}
	l.writer = true
	return nil
}

func iUnlock(w *W, fn *ssa.Function, args []Value, pos token.Pos) Value {
	p := args[0].(Ptr)
	l := w.lockFor(p)
	if !l.writer {
		w.violation("lock", "Unlock of a mutex that is not write-locked"+w.posStr(pos), nil)
	}
	l.writer = false
	w.afterUnlock(p, pos)
	return nil
}

func iRLock(w *W, fn *ssa.Function, args []Value, pos token.Pos) Value {
	w.use("sync.RWMutex")
	p := args[0].(Ptr)
	l := w.lockFor(p)
	if l.writer {
		w.violation("lock", "RLock of a mutex that is write-locked (self-deadlock)"+w.posStr(pos), nil)
	}
	l.readers++
	return nil
}

func iRUnlock(w *W, fn *ssa.Function, args []Value, pos token.Pos) Value {
	p := args[0].(Ptr)
	l := w.lockFor(p)
	if l.readers <= 0 {
		w.violation("lock", "RUnlock of a mutex that is not read-locked"+w.posStr(pos), nil)
	} else {
		l.readers--
	}
	w.afterUnlock(p, pos)
	return nil
}

// afterUnlock gives the harness's interference hook a chance to run at the
// point where another goroutine could acquire the lock.
func (w *W) afterUnlock(p Ptr, pos token.Pos) {
	if w.shared[p.O] == "" || w.inHook || w.e.hookFn == nil {
		return
	}
	w.inHook = true
	defer func() { w.inHook = false }()
	w.callFunc(w.e.hookFn, nil, nil, pos)
}

// lockCheck enforces the lock discipline on objects declared shared.
func (w *W) lockCheck(p Ptr, write bool, pos token.Pos) {
	if len(w.shared) == 0 {
		return
	}
	mu := w.shared[p.O]
	if mu == "" || len(p.Path) == 0 {
		return
	}
	if strings.HasPrefix(p.Key(), mu) { // the mutex itself
		return
	}
	l := w.locks[mu]
	held := l != nil && (l.writer || (!write && l.readers > 0))
	if !held {
		kind := "read"
		if write {
			kind = "write"
		}
		w.violation("race", fmt.Sprintf("unsynchronised %s of shared field %s%s", kind, p.Key(), w.posStr(pos)), nil)
	}
}

func (w *W) lockCheckMap(m *MapObj, write bool, pos token.Pos) {}

// ---------------------------------------------------------------- native thunks

func iIdnaNew(w *W, fn *ssa.Function, args []Value, pos token.Pos) Value {
	w.use("idna")
	sl := args[0].(Slice)
	opts := make([]idna.Option, sl.Len)
	for i := range opts {
		n, ok := w.sliceGet(sl, i).(Native)
		if !ok {
			unsupp("idna.New with a non-native option")
		}
		opts[i] = n.V.(idna.Option)
	}
	return Native{idna.New(opts...)}
}

func (w *W) errorValue(err error) Value {
	if err == nil {
		return Iface{}
	}
	return Iface{T: w.e.errorStringType(), V: Native{err}}
}

// symAddr stands for the netip.Addr of a symbolic host under the stub modes.
type symAddr struct {
	host Str
}

func (w *W) stubErr() Value {
	return Iface{T: w.e.errorStringType(), V: Native{fmt.Errorf("stubbed error")}}
}

func iIdnaToASCII(w *W, fn *ssa.Function, args []Value, pos token.Pos) Value {
	w.use("idna")
	p, ok := args[0].(Native)
	if !ok {
		unsupp("idna profile is not a native value")
	}
	if _, conc := w.conc(args[1].(Str)); !conc {
		switch w.stubMode {
		case 1: // nondeterministic: the host is or is not a valid domain
			w.use("stub-idna")
			if w.fork(make([]*Term, 2), false, "stub idna.ToASCII") == 0 {
				return Tuple{args[1], Iface{}}
			}
			return Tuple{w.strConst(""), w.stubErr()}
		case 2: // optimistic: every host is a valid domain
			w.use("stub-idna")
			return Tuple{args[1], Iface{}}
		}
	}
	s := w.cstr(args[1], "idna.Profile.ToASCII")
	r, err := p.V.(*idna.Profile).ToASCII(s)
	return Tuple{w.strConst(r), w.errorValue(err)}
}

func iPublicSuffix(w *W, fn *ssa.Function, args []Value, pos token.Pos) Value {
	w.use("publicsuffix")
	if _, conc := w.conc(args[0].(Str)); !conc && w.stubMode != 0 {
		// nondeterministic: the host is, or is not, its own public suffix
		w.use("stub-psl")
		if w.fork(make([]*Term, 2), false, "stub publicsuffix.PublicSuffix") == 0 {
			return Tuple{args[0], w.ts.tt}
		}
		return Tuple{w.strConst("<another suffix>"), w.ts.ff}
	}
	s := w.cstr(args[0], "publicsuffix.PublicSuffix")
	r, icann := publicsuffix.PublicSuffix(s)
	return Tuple{w.strConst(r), w.ts.Bool(icann)}
}

func iETLDPlusOne(w *W, fn *ssa.Function, args []Value, pos token.Pos) Value {
	w.use("publicsuffix")
	s := w.cstr(args[0], "publicsuffix.EffectiveTLDPlusOne")
	r, err := publicsuffix.EffectiveTLDPlusOne(s)
	return Tuple{w.strConst(r), w.errorValue(err)}
}

func iParseAddr(w *W, fn *ssa.Function, args []Value, pos token.Pos) Value {
	w.use("netip")
	if _, conc := w.conc(args[0].(Str)); !conc {
		switch w.stubMode {
		case 1:
			w.use("stub-netip")
			if w.fork(make([]*Term, 2), false, "stub netip.ParseAddr") == 0 {
				return Tuple{Native{symAddr{args[0].(Str)}}, Iface{}}
			}
			return Tuple{Native{netip.Addr{}}, w.stubErr()}
		case 2:
			w.use("stub-netip")
			return Tuple{Native{symAddr{args[0].(Str)}}, Iface{}}
		}
	}
	s := w.cstr(args[0], "netip.ParseAddr")
	a, err := netip.ParseAddr(s)
	return Tuple{Native{a}, w.errorValue(err)}
}

func iAddrMethod(w *W, fn *ssa.Function, args []Value, pos token.Pos) Value {
	n, ok := args[0].(Native)
	if !ok {
		unsupp("netip.Addr method on a non-native value")
	}
	if sa, isSym := n.V.(symAddr); isSym {
		// nondeterministic (mode 1) or optimistic (mode 2) properties of a symbolic address
		alt := w.stubMode == 1 && w.fork(make([]*Term, 2), false, "stub netip.Addr."+fn.Name()) == 1
		switch fn.Name() {
		case "Zone":
			if alt {
				return w.strConst("zone")
			}
			return w.strConst("")
		case "Is4In6":
			return w.ts.Bool(alt)
		case "String":
			if alt {
				return w.strConst("<another, canonical, rendering>")
			}
			return sa.host
		case "IsLoopback":
			if w.stubMode == 2 {
				alt = w.fork(make([]*Term, 2), false, "stub netip.Addr.IsLoopback") == 1
			}
			return w.ts.Bool(alt)
		}
		unsupp("netip.Addr.%s on a symbolic address", fn.Name())
	}
	a := n.V.(netip.Addr)
	switch fn.Name() {
	case "Zone":
		return w.strConst(a.Zone())
	case "Is4In6":
		return w.ts.Bool(a.Is4In6())
	case "String":
		w.allocEvent("netip.Addr.String")
		return w.strConst(a.String())
	case "IsLoopback":
		return w.ts.Bool(a.IsLoopback())
	case "Is4":
		return w.ts.Bool(a.Is4())
	case "Is6":
		return w.ts.Bool(a.Is6())
	case "IsValid":
		return w.ts.Bool(a.IsValid())
	case "Unmap":
		return Native{a.Unmap()}
	}
	unsupp("netip.Addr.%s", fn.Name())
	return nil
}

// ---------------------------------------------------------------- harness primitives

func (w *W) freshName(prefix string) string {
	w.nextVar++
	return fmt.Sprintf("%s%d", prefix, w.nextVar)
}

func (w *W) prim(fn *ssa.Function, args []Value, pos token.Pos) Value {
	ts := w.ts
	switch fn.Name() {
	case "zzBool":
		t := ts.Var(w.freshName("b"), 0)
		w.trace = append(w.trace, traceVal{Kind: "bool", T: t, Hook: w.inHook})
		return t
	case "zzInt":
		t := ts.Var(w.freshName("i"), 64)
		w.trace = append(w.trace, traceVal{Kind: "int", T: t, Hook: w.inHook})
		return t
	case "zzByte":
		t := ts.Var(w.freshName("c"), 8)
		w.trace = append(w.trace, traceVal{Kind: "byte", T: t, Hook: w.inHook})
		return t
	case "zzString":
		n := args[0].(*Term)
		if !n.IsConst() {
			unsupp("zzString with symbolic bound")
		}
		s := w.newSymStr(w.freshName("s"), int(n.Int()))
		w.trace = append(w.trace, traceVal{Kind: "string", S: s, Hook: w.inHook})
		return s
	case "zzChoose":
		n := args[0].(*Term)
		if !n.IsConst() || n.Int() <= 0 {
			unsupp("zzChoose with symbolic or non-positive bound")
		}
		k := 0
		if n.Int() > 1 {
			k = w.fork(make([]*Term, n.Int()), false, "zzChoose")
		}
		t := ts.Int64(int64(k))
		w.trace = append(w.trace, traceVal{Kind: "int", T: t, Hook: w.inHook})
		return t
	case "zzAssume":
		c := args[0].(*Term)
		if c.IsFalse() {
			panic(pathEnd{endAssumeFalse, ""})
		}
		if !c.IsTrue() {
			if w.checkSat(c) == Unsat {
				panic(pathEnd{endAssumeFalse, ""})
			}
			w.addPC(c)
		}
		return nil
	case "zzAssert":
		w.assertCond(args[0].(*Term), w.cstr(args[1], "zzAssert message"), pos)
		return nil
	case "zzReach":
		tag := w.cstr(args[0], "zzReach tag")
		if !w.reach[tag] {
			// a tag counts only if the path is feasible up to here
			w.reach[tag] = true
		}
		return nil
	case "zzTier":
		return ts.Int64(int64(w.e.opts.Tier))
	case "zzDevFocus":
		// development aid: GOSYM_FOCUS=<n> restricts scenario-based harnesses to
		// one scenario; unset (-1) in every registered command
		n := int64(-1)
		if v := os.Getenv("GOSYM_FOCUS"); v != "" {
			fmt.Sscan(v, &n)
		}
		return ts.Int64(n)
	case "zzSymbolic":
		return ts.tt
	case "zzShared":
		w.markShared(args[0])
		return nil
	case "zzAllocStart":
		w.countAllocs = true
		w.allocs = 0
		w.allocLog = w.allocLog[:0]
		w.corsBranch = w.corsBranch[:0]
		return nil
	case "zzAllocStop":
		w.countAllocs = false
		w.e.recordAllocClass(string(w.corsBranch), w.allocs, w.allocLog, w)
		if lim := args[0].(*Term); lim.IsConst() && int64(w.allocs) > lim.Int() {
			w.violation("alloc", fmt.Sprintf("%d allocation-site events in one request (limit %d): %v", w.allocs, lim.Int(), w.allocLog), nil)
		}
		return ts.Int64(int64(w.allocs))
	case "zzSameBacking":
		a, b := args[0].(Slice), args[1].(Slice)
		if a.O == nil || b.O == nil || a.Cap == 0 || b.Cap == 0 {
			return ts.ff
		}
		if a.O != b.O || !samePath(a.Path, b.Path) {
			return ts.ff
		}
		return ts.Bool(a.Off < b.Off+b.Cap && b.Off < a.Off+a.Cap)
	case "zzSharesMutable":
		r := w.sharesMutable(args[0], args[1])
		w.oracleHit = r
		return ts.Bool(r)
	case "zzReachesModuleState":
		r := w.reachesModuleState(args[0])
		w.oracleHit = r
		return ts.Bool(r)
	case "zzIsConcrete":
		switch x := args[0].(type) {
		case Str:
			_, ok := w.conc(x)
			return ts.Bool(ok)
		case *Term:
			return ts.Bool(x.IsConst())
		}
		return ts.ff
	case "zzFreeze":
		w.freezeReachable(args[0], map[any]bool{})
		return nil
	case "zzNote":
		return nil
	case "zzStubs":
		m := args[0].(*Term)
		if !m.IsConst() {
			unsupp("zzStubs with symbolic mode")
		}
		w.stubMode = int(m.Int())
		return nil
	}
	unsupp("unknown harness primitive %s", fn.Name())
	return nil
}

func (w *W) markShared(v Value) {
	if i, ok := v.(Iface); ok {
		v = i.V
	}
	p, ok := v.(Ptr)
	if !ok || p.O == nil {
		unsupp("zzShared of %T", v)
	}
	st, ok := p.O.Typ.Underlying().(*types.Struct)
	if !ok {
		unsupp("zzShared of non-struct")
	}
	for i := 0; i < st.NumFields(); i++ {
		tn := st.Field(i).Type().String()
		if tn == "sync.RWMutex" || tn == "sync.Mutex" {
			w.shared[p.O] = p.extend(int32(i)).Key()
			// what the object points to at the moment it becomes shared is
			// published state as well: it must never be written again
			w.freezeReachable(p.O.V, map[any]bool{})
			return
		}
	}
	unsupp("zzShared: no mutex field in %s", p.O.Typ)
}

// walk visits every mutable memory object (slice backing arrays, pointed-to
// objects, maps) reachable from v.
func (w *W) walk(v Value, seen map[any]bool, visit func(o any)) {
	switch x := v.(type) {
	case Ptr:
		if x.O == nil || seen[x.O] {
			return
		}
		seen[x.O] = true
		visit(x.O)
		w.walk(x.O.V, seen, visit)
	case Slice:
		if x.O == nil {
			return
		}
		if !seen[x.O] {
			seen[x.O] = true
			if x.Cap > 0 {
				visit(x.O)
			}
			w.walk(x.O.V, seen, visit)
		}
	case *MapObj:
		if x == nil || seen[x] {
			return
		}
		seen[x] = true
		visit(x)
		for _, k := range x.Keys {
			w.walk(x.M[k].V, seen, visit)
		}
	case Iface:
		if x.T != nil {
			w.walk(x.V, seen, visit)
		}
	case Struct:
		for _, e := range x {
			w.walk(e, seen, visit)
		}
	case Array:
		for _, e := range x {
			w.walk(e, seen, visit)
		}
	case Tuple:
		for _, e := range x {
			w.walk(e, seen, visit)
		}
	case *Closure:
		if x != nil {
			for _, e := range x.Env {
				w.walk(e, seen, visit)
			}
		}
	}
}

func (w *W) sharesMutable(a, b Value) bool {
	as := map[any]bool{}
	w.walk(a, map[any]bool{}, func(o any) { as[o] = true })
	found := false
	w.walk(b, map[any]bool{}, func(o any) {
		if as[o] {
			found = true
		}
	})
	return found
}

// reachesModuleState: does v reach a mutable object that belongs to the
// package-level state (allocated by package initialisers)?
func (w *W) reachesModuleState(v Value) bool {
	found := false
	w.walk(v, map[any]bool{}, func(o any) {
		switch x := o.(type) {
		case *Obj:
			if x.Init {
				found = true
			}
		case *MapObj:
			if x.Init {
				found = true
			}
		}
	})
	return found
}

func (w *W) freezeReachable(v Value, seen map[any]bool) {
	w.walk(v, seen, func(o any) {
		switch x := o.(type) {
		case *Obj:
			if !x.Init {
				x.Frozen = true
			}
		case *MapObj:
			if !x.Init {
				x.Frozen = true
			}
		}
	})
}

func (w *W) allocEvent(what string) {
	if !w.countAllocs || w.allocMute > 0 || w.inInit > 0 {
		return
	}
	if w.guard != nil {
		panic(mergeAbort{"allocation inside speculated region"})
	}
	w.allocs++
	if len(w.allocLog) < 64 {
		w.allocLog = append(w.allocLog, what)
	}
}

