package main

// Symbolic interpreter for go/ssa. One W (worker) per goroutine; paths are
// explored by re-execution from the harness entry following a decision prefix.

import (
	"fmt"
	"go/constant"
	"go/token"
	"go/types"
	"os"
	"strings"
	"time"
	"unicode/utf8"

	"golang.org/x/tools/go/ssa"
)

type pathEndKind int

const (
	endOK pathEndKind = iota
	endAssumeFalse
	endInfeasible
	endBudget
	endUnsupported
	endStop // global stop requested
)

type pathEnd struct {
	kind pathEndKind
	msg  string
}

type traceVal struct {
	Kind string // "int" "bool" "byte" "string" "choose"
	T    *Term  // int/bool/byte/choose
	S    Str    // string
	Hook bool   // drawn inside the unlock hook (an interference point that only the engine's mutex model has)
}

type undoRec struct {
	p   Ptr
	old Value
	m   *MapObj
	key string
	had bool
	ent mapEntry
	delIdx int
}

type frame struct {
	fn     *ssa.Function
	regs   map[ssa.Value]Value
	block  *ssa.BasicBlock
	prev   *ssa.BasicBlock
	env    []Value
	defers []func()
	result Value
	skipPhis bool
}

type W struct {
	e   *Engine
	id  int
	ts  *TermStore
	sol *Solver
	sol2 *Solver
	sol3 *Solver

	globals  map[*ssa.Global]*Obj
	initDone map[*ssa.Package]bool
	inInit   int
	undo     []undoRec
	strCache map[string]*StrBase
	constCache map[*ssa.Const]Value
	icache   map[*ssa.Function]intrinsic
	pure     map[*ssa.Function]int8

	// per path
	pc        []*Term
	asserted  int
	prefix    []int32
	pos       int
	decisions []int32
	steps     int
	depth     int
	trace     []traceVal
	reach     map[string]bool
	nextObj   int
	nextStr   int
	nextVar   int
	locks     map[string]*lockState
	shared    map[*Obj]string // shared object -> key of its mutex field
	guard     *Term          // non-nil while executing a speculated region
	noFork    bool
	inHook    bool
	allowInit bool
	stubMode  int
	allocMute int
	pcSet     map[int32]struct{}
	obligs    []oblig
	nextOb    int
	vb        map[int32]rng
	rmemo     map[int32]rng
	bmemo     map[int32]tri
	pviols    []pendingViol
	narrowMerge bool
	noMergeRoot bool
	minfo     map[*ssa.Function]*fnMergeInfo
	pureOrder map[*ssa.Function][]*ssa.BasicBlock
	pureIn    map[*ssa.Function]map[*ssa.BasicBlock]bool
	allocs    int
	allocLog  []string
	countAllocs bool
	corsBranch []byte
	oracleHit  bool // an engine-only reachability oracle has just answered true
	notes     []string
	pathViol  bool
	fnCount   map[*ssa.Function]int
	symbolicPath bool
	assertsOnPath int

	st Stats
}

type lockState struct {
	readers int
	writer  bool
}

func newW(e *Engine, id int) (*W, error) {
	w := &W{e: e, id: id, ts: NewTermStore(),
		globals: map[*ssa.Global]*Obj{}, initDone: map[*ssa.Package]bool{},
		strCache: map[string]*StrBase{}, constCache: map[*ssa.Const]Value{},
		icache: map[*ssa.Function]intrinsic{}, pure: map[*ssa.Function]int8{},
		fnCount: map[*ssa.Function]int{}, minfo: map[*ssa.Function]*fnMergeInfo{},
		pureOrder: map[*ssa.Function][]*ssa.BasicBlock{}, pureIn: map[*ssa.Function]map[*ssa.BasicBlock]bool{}}
	var err error
	w.sol, err = NewSolver(e.opts.Solver, e.opts.TimeoutMs)
	if err != nil {
		return nil, err
	}
	if e.opts.Solver2 != "" {
		w.sol2, err = NewSolver(e.opts.Solver2, e.opts.TimeoutMs)
		if err != nil {
			return nil, err
		}
	}
	if e.opts.Solver3 != "" {
		w.sol3, err = NewSolver(e.opts.Solver3, e.opts.TimeoutMs)
		if err != nil {
			return nil, err
		}
	}
	return w, nil
}

func (w *W) close() {
	w.sol.Close()
	w.sol2.Close()
	w.sol3.Close()
}

// ---------------------------------------------------------------- path condition and solver

func (w *W) addPC(c *Term) {
	if c == nil || c.IsTrue() {
		return
	}
	w.pc = append(w.pc, c)
	w.symbolicPath = true
	w.learn(c)
	w.absAssume(c, true)
}

// learn records facts that are syntactically implied by a new path-condition
// conjunct, so that identical (or trivially weaker) run-time checks need no
// solver call. Purely an optimisation: everything recorded is implied by the
// path condition.
func (w *W) learn(c *Term) {
	if _, ok := w.pcSet[c.ID]; ok {
		return
	}
	w.pcSet[c.ID] = struct{}{}
	ts := w.ts
	switch c.Op {
	case OpAnd:
		w.learn(c.A[0])
		w.learn(c.A[1])
	case OpSlt: // a <s b
		a, b := c.A[0], c.A[1]
		if a.IsConst() && a.Int() >= 0 {
			w.learn(ts.Ult(a, b))
			w.learn(ts.Ule(a, b))
			w.learn(ts.Sle(a, b))
		}
	case OpSle:
		a, b := c.A[0], c.A[1]
		if a.IsConst() && a.Int() >= 0 {
			w.learn(ts.Ule(a, b))
		}
	case OpUlt:
		w.learn(ts.Ule(c.A[0], c.A[1]))
	case OpNot:
		x := c.A[0]
		switch x.Op {
		case OpSlt: // !(a <s b)  =  b <=s a
			a, b := x.A[0], x.A[1]
			w.learn(ts.Sle(b, a))
		case OpSle: // !(a <=s b) = b <s a
			a, b := x.A[0], x.A[1]
			w.learn(ts.Slt(b, a))
		case OpUlt:
			w.learn(ts.Ule(x.A[1], x.A[0]))
		case OpUle:
			w.learn(ts.Ult(x.A[1], x.A[0]))
		case OpOr: // !(a || b) = !a && !b
			w.learn(ts.Not(x.A[0]))
			w.learn(ts.Not(x.A[1]))
		}
	}
}

// known reports whether c is syntactically implied by the path condition.
func (w *W) known(c *Term) bool {
	if c.IsTrue() {
		return true
	}
	if _, ok := w.pcSet[c.ID]; ok {
		return true
	}
	if c.Op == OpAnd {
		return w.known(c.A[0]) && w.known(c.A[1])
	}
	if c.Op == OpOr {
		if w.known(c.A[0]) || w.known(c.A[1]) {
			return true
		}
	}
	if w.decide(c) == triTrue {
		if w.e.opts.CheckAbstract {
			w.crossCheck(c, true)
		}
		return true
	}
	if c.Op == OpOr {
		// (!g || x): decide x under the assumption g
		for i := 0; i < 2; i++ {
			g, x := w.ts.Not(c.A[i]), c.A[1-i]
			if w.decideUnder(g, x) {
				if w.e.opts.CheckAbstract {
					w.crossCheck(c, true)
				}
				return true
			}
		}
	}
	return false
}

// decideUnder: do the intervals decide x to be true once g is assumed?
func (w *W) decideUnder(g, x *Term) bool {
	saved := make(map[int32]rng, len(w.vb))
	for k, v := range w.vb {
		saved[k] = v
	}
	w.absAssume(g, true)
	w.absInvalidate()
	r := w.decide(x)
	if r != triTrue && x.Op == OpOr {
		// nested implication
		for i := 0; i < 2 && r != triTrue; i++ {
			w.absAssume(w.ts.Not(x.A[i]), true)
			w.absInvalidate()
			if w.decide(x.A[1-i]) == triTrue {
				r = triTrue
			}
		}
	}
	w.vb = saved
	w.absInvalidate()
	return r == triTrue
}

// crossCheck verifies an interval-domain verdict against the solver (selftest mode).
func (w *W) crossCheck(c *Term, verdict bool) {
	q := c
	if verdict {
		q = w.ts.Not(c)
	}
	// without the not-asserted obligations the context is weaker than the
	// path condition, so include them explicitly
	w.syncPC()
	lits := []*Term{q}
	for _, o := range w.obligs {
		lits = append(lits, w.pc[o.k])
	}
	if r := w.sol.Check(lits...); r == Sat {
		var pcs []string
		for _, p := range w.pc {
			pcs = append(pcs, p.String())
		}
		panic(fmt.Sprintf("interval domain unsound: decided %v for %s\nvb=%v\npc=\n%s", verdict, c, w.vb, strings.Join(pcs, "\n")))
	}
	w.st.AbsCrossChecks++
}

func (w *W) syncPC() {
	// obligations are not asserted: if valid they are implied by the rest, and
	// if not the violation is reported from flush
	for ; w.asserted < len(w.pc); w.asserted++ {
		if w.nextOb < len(w.obligs) && w.obligs[w.nextOb].k == w.asserted {
			w.nextOb++
			continue
		}
		w.sol.Assert(w.pc[w.asserted])
	}
}

func (w *W) checkSat(c *Term) Result {
	w.syncPC()
	w.st.FeasQueries++
	r := w.sol.Check(c)
	if r == Unknown {
		w.st.Unknowns++
	}
	return r
}

// fork picks one of several alternatives (conds[i] == nil means no constraint)
// and schedules the other feasible ones. When exhaustive is set the
// alternatives are known to cover the path condition, so the last candidate
// needs no query if every other one is infeasible.
func (w *W) fork(conds []*Term, exhaustive bool, what string) int {
	if w.noFork {
		panic(mergeAbort{"fork inside speculated region: " + what})
	}
	if w.e.stopped() {
		panic(pathEnd{endStop, ""})
	}
	if w.pos < len(w.prefix) {
		k := int(w.prefix[w.pos])
		w.pos++
		if k >= len(conds) {
			var cs []string
			for _, c := range conds {
				if c == nil {
					cs = append(cs, "nil")
				} else {
					cs = append(cs, c.String())
				}
			}
			panic(fmt.Sprintf("replay divergence at decision %d (%s): %d >= %d; prefix=%v conds=%v dbg=%v", w.pos-1, what, k, len(conds), w.prefix, cs, w.e.dbgFor(w.prefix[:w.pos])))
		}
		w.decisions = append(w.decisions, int32(k))
		w.addPC(conds[k])
		return k
	}
	w.st.Forks++
	var feas []int
	for i, c := range conds {
		if c == nil || c.IsTrue() {
			feas = append(feas, i)
			continue
		}
		if c.IsFalse() {
			continue
		}
		switch w.decide(c) {
		case triFalse:
			if w.e.opts.CheckAbstract {
				w.crossCheck(c, false)
			}
			w.st.PrunedAbs++
			continue
		case triTrue:
			if w.e.opts.CheckAbstract {
				w.crossCheck(c, true)
			}
			feas = append(feas, i)
			continue
		}
		if exhaustive && i == len(conds)-1 && len(feas) == 0 {
			feas = append(feas, i)
			continue
		}
		if w.checkSat(c) != Unsat {
			feas = append(feas, i)
		} else {
			w.st.Pruned++
		}
	}
	if len(feas) == 0 {
		panic(pathEnd{endInfeasible, what})
	}
	for _, k := range feas[1:] {
		np := make([]int32, len(w.decisions)+1)
		copy(np, w.decisions)
		np[len(w.decisions)] = int32(k)
		if os.Getenv("GOSYM_DEBUG_FORK") != "" {
			var cs []string
			for _, c := range conds {
				if c == nil {
					cs = append(cs, "nil")
				} else {
					cs = append(cs, c.String())
				}
			}
			w.e.dbgSet(np, fmt.Sprintf("%s n=%d conds=%v", what, len(conds), cs))
		}
		w.e.queue.push(np)
	}
	k := feas[0]
	w.decisions = append(w.decisions, int32(k))
	w.addPC(conds[k])
	return k
}

// branch forks on a Boolean term; returns the concrete outcome on this path.
func (w *W) branch(c *Term, what string) bool {
	if c.IsConst() {
		return c.Val == 1
	}
	return w.fork([]*Term{c, w.ts.Not(c)}, true, what) == 0
}

// concretize forks until the integer term is a constant on this path
// (used for slice bounds, lengths of makes etc.). lo..hi inclusive range tried.
func (w *W) concretizeInt(t *Term, lo, hi int64, what string) int64 {
	if t.IsConst() {
		return t.Int()
	}
	if hi-lo > 4096 {
		unsupp("concretize %s over a range of %d", what, hi-lo)
	}
	conds := make([]*Term, 0, hi-lo+1)
	for v := lo; v <= hi; v++ {
		conds = append(conds, w.ts.Eq(t, w.ts.BV(t.W, uint64(v))))
	}
	k := w.fork(conds, false, "concretize "+what)
	return lo + int64(k)
}

// require states a condition whose failure is a Go run-time panic. The
// condition joins the path condition at once; whether the path condition up
// to here really implies it is decided at the end of the path, in one batch
// query together with the path's other obligations (flush).
func (w *W) require(cond *Term, what string, pos token.Pos) {
	if w.guard != nil {
		cond = w.ts.Implies(w.guard, cond)
	}
	if cond.IsTrue() {
		w.st.ConcreteChecks++
		return
	}
	if cond.IsFalse() {
		w.violation("panic", what+w.posStr(pos), nil)
		panic(pathEnd{endOK, "panic: " + what})
	}
	if w.known(cond) {
		w.st.ImpliedChecks++
		return
	}
	if w.e.opts.Profile {
		w.e.prof(what + w.posStr(pos) + "  " + cond.String())
	}
	w.obligation(cond, "panic", what+w.posStr(pos))
}

type oblig struct {
	k    int // index of the condition in w.pc
	kind string
	msg  string
}

type pendingViol struct {
	k     int // number of path-condition conjuncts in force
	kind  string
	msg   string
	extra *Term
}

func (w *W) obligation(cond *Term, kind, msg string) {
	w.st.Obligations++
	w.obligs = append(w.obligs, oblig{len(w.pc), kind, msg})
	w.pc = append(w.pc, cond)
	w.symbolicPath = true
	w.learn(cond)
	w.absAssume(cond, true)
}

// violation records a definite violation candidate under the current path
// condition (plus extra, if given); its feasibility and model are determined
// by flush at the end of the path.
func (w *W) violation(kind, msg string, extra *Term) {
	if w.guard != nil {
		panic(mergeAbort{"violation under guard"})
	}
	w.pviols = append(w.pviols, pendingViol{len(w.pc), kind, msg, extra})
}

// flush decides the path's obligations and violation candidates. Called with
// a fresh solver scope (the incrementally asserted path condition popped).
func (w *W) flush() {
	if len(w.obligs) == 0 && len(w.pviols) == 0 {
		return
	}
	ts := w.ts
	// prefix[i] = pc[0] && ... && pc[i-1]
	prefix := make([]*Term, len(w.pc)+1)
	prefix[0] = ts.tt
	for i, c := range w.pc {
		prefix[i+1] = ts.And(prefix[i], c)
	}
	w.sol.Push()
	defer w.sol.Pop()
	if len(w.obligs) > 0 {
		d := ts.ff
		for _, o := range w.obligs {
			d = ts.Or(d, ts.And(prefix[o.k], ts.Not(w.pc[o.k])))
		}
		w.st.BatchQueries++
		t0 := time.Now()
		r := w.decideQ(d)
		w.st.BatchNs += int64(time.Since(t0))
		if r == Unsat {
			w.confirm(d, len(w.obligs))
		} else {
			// locate the failing obligation(s)
			for _, o := range w.obligs {
				f := ts.And(prefix[o.k], ts.Not(w.pc[o.k]))
				w.st.BatchQueries++
				switch w.decideQ(f) {
				case Unsat:
					w.confirm(f, 1)
				case Sat:
					w.recordViolation(o.kind, o.msg, f)
				default:
					w.st.Inconclusive++
					w.note("inconclusive " + o.kind + " check: " + o.msg)
				}
				if w.e.stopped() {
					break
				}
			}
		}
	}
	for _, pv := range w.pviols {
		f := prefix[pv.k]
		if pv.extra != nil {
			f = ts.And(f, pv.extra)
		}
		w.st.BatchQueries++
		switch w.decideQ(f) {
		case Sat:
			w.recordViolation(pv.kind, pv.msg, f)
		case Unknown:
			w.st.Inconclusive++
			w.note("violation candidate with unknown feasibility: " + pv.msg)
		}
	}
}

// decideQ answers a deciding query (called inside flush's scope, where nothing
// is asserted: f is self-contained). An unknown/timeout answer of the primary
// solver is not the end: the query is retried once, then put to the
// confirming solver, then to a fresh process of the primary solver with ten
// times the time limit. Only if all of them fail is the query inconclusive.
func (w *W) decideQ(f *Term) Result {
	r := w.sol.Check(f)
	if r != Unknown {
		return r
	}
	w.st.Retries++
	if r = w.sol.Check(f); r != Unknown {
		return r
	}
	if w.sol2 != nil {
		w.sol2.Push()
		r = w.sol2.Check(f)
		w.sol2.Pop()
		if r != Unknown {
			return r
		}
	}
	return w.freshCheck(w.e.opts.Solver, f)
}

// freshCheck asks a one-shot solver process with a generous time limit.
func (w *W) freshCheck(kind string, f *Term) Result {
	s, err := NewSolver(kind, 10*w.e.opts.TimeoutMs)
	if err != nil {
		return Unknown
	}
	defer s.Close()
	r := s.Check(f)
	w.e.mu.Lock()
	w.e.solverTime[kind+"(retry)"] += s.Time
	w.e.solverQueries[kind+"(retry)"] += s.Queries
	w.e.mu.Unlock()
	return r
}

// confirm re-asks a deciding unsat query to the confirming solver(s).
func (w *W) confirm(f *Term, n int) {
	ok := true
	// deterministic sampling of the paths whose deciding queries are re-asked
	h := uint64(1469598103934665603)
	for _, d := range w.decisions {
		h = (h ^ uint64(d+1)) * 1099511628211
	}
	for i, s := range []*Solver{w.sol2, w.sol3} {
		if s == nil {
			continue
		}
		every := uint64(w.e.opts.ConfirmEvery)
		if i == 1 {
			every *= 4
		}
		if every > 1 && (h>>7)%every != 0 {
			continue
		}
		s.Push()
		r := s.Check(f)
		s.Pop()
		w.st.ConfirmQueries++
		if r == Unknown {
			w.st.Retries++
			r = w.freshCheck(s.name, f)
		}
		switch r {
		case Sat:
			w.st.Disagreements++
			w.note(fmt.Sprintf("SOLVER DISAGREEMENT: %s says unsat, %s says sat", w.sol.name, s.name))
			ok = false
		case Unknown:
			// The confirming solver neither agrees nor disagrees (time limit):
			// the primary solver's verdict stands, the query is counted as
			// unconfirmed in the evidence. A confirmation is a cross-check of
			// the solver, not part of deciding the property.
			w.st.ConfirmUnknown++
			w.note("confirming solver " + s.name + " returned unknown on a deciding query even with ten times the time limit (primary verdict stands, counted as unconfirmed)")
		}
	}
	if ok {
		w.st.Discharged += int64(n)
	}
}

func (w *W) note(s string) {
	if len(w.notes) < 50 {
		w.notes = append(w.notes, s)
	}
	w.e.note(s)
}

func (w *W) posStr(pos token.Pos) string {
	if !pos.IsValid() {
		return ""
	}
	p := w.e.prog.Fset.Position(pos)
	return fmt.Sprintf(" at %s:%d", p.Filename, p.Line)
}

// goPanic models a Go panic that no harness recovers: a violation.
func (w *W) goPanic(msg string, pos token.Pos) {
	if w.guard != nil {
		panic(mergeAbort{"panic inside speculated region"})
	}
	w.violation("panic", msg+w.posStr(pos), nil)
	panic(pathEnd{endOK, "panic: " + msg})
}

// ---------------------------------------------------------------- memory

func (w *W) newObj(v Value, t types.Type, site string) *Obj {
	w.nextObj++
	return &Obj{ID: w.nextObj, V: v, Typ: t, Init: w.inInit > 0, Site: site}
}

func (w *W) resolve(p Ptr) (parent *Value, ok bool) {
	cur := &p.O.V
	for _, i := range p.Path {
		switch x := (*cur).(type) {
		case Struct:
			cur = &x[i]
		case Array:
			if int(i) >= len(x) {
				return nil, false
			}
			cur = &x[i]
		default:
			panic(fmt.Sprintf("resolve: path %v through %T (obj %s)", p.Path, *cur, p.O.Site))
		}
	}
	return cur, true
}

func (w *W) load(p Ptr, pos token.Pos) Value {
	if p.O == nil {
		w.goPanic("nil pointer dereference", pos)
	}
	w.lockCheck(p, false, pos)
	cell, ok := w.resolve(p)
	if !ok {
		panic("load: bad pointer")
	}
	if p.Sym != nil {
		arr, isArr := (*cell).(Array)
		if !isArr {
			panic("symbolic pointer into non-array")
		}
		return w.selectSym(arr, p.Sym, pos)
	}
	return copyVal(*cell)
}

// selectSym builds ite(idx==0, a[0], ite(idx==1, a[1], ...)).
func (w *W) selectSym(arr Array, idx *Term, pos token.Pos) Value {
	n := len(arr)
	if n == 0 {
		unsupp("symbolic index into empty array")
	}
	res := arr[n-1]
	for k := n - 2; k >= 0; k-- {
		c := w.ts.Eq(idx, w.ts.BV(idx.W, uint64(k)))
		m, ok := w.mergeVal(c, arr[k], res)
		if !ok {
			unsupp("symbolic index into array of unmergeable elements (%T)%s", arr[k], w.posStr(pos))
		}
		res = m
	}
	return res
}

func (w *W) store(p Ptr, v Value, pos token.Pos) {
	if p.O == nil {
		w.goPanic("nil pointer dereference (store)", pos)
	}
	if p.Sym != nil {
		unsupp("store through symbolic index")
	}
	w.lockCheck(p, true, pos)
	if p.O.Frozen {
		w.violation("frozen-store", "store into published (frozen) object "+p.O.Site+w.posStr(pos), nil)
	}
	cell, ok := w.resolve(p)
	if !ok {
		panic("store: bad pointer")
	}
	if w.shared[p.O] != "" {
		// publication: what a shared object points to must never be written again
		w.freezeReachable(v, map[any]bool{})
	}
	if p.O.Init && w.inInit == 0 {
		w.undo = append(w.undo, undoRec{p: p, old: *cell})
		if w.e.opts.GlobalWriteIsViolation {
			w.violation("global-write", "store into package-level state "+p.O.Site+w.posStr(pos), nil)
		}
	}
	*cell = copyVal(v)
}

func (w *W) global(g *ssa.Global) *Obj {
	if o, ok := w.globals[g]; ok {
		return o
	}
	w.inInit++
	t := g.Type().(*types.Pointer).Elem()
	o := w.newObj(w.zero(t), t, "global "+g.String())
	w.inInit--
	w.globals[g] = o
	return o
}

func (w *W) ensureInit(pkg *ssa.Package) {
	if pkg == nil || w.initDone[pkg] {
		return
	}
	w.initDone[pkg] = true
	if os.Getenv("GOSYM_DEBUG_INIT") != "" {
		fmt.Fprintln(os.Stderr, "init of", pkg.Pkg.Path())
	}
	initFn := pkg.Func("init")
	if initFn == nil || initFn.Blocks == nil {
		return
	}
	w.inInit++
	defer func() { w.inInit-- }()
	w.allowInit = true
	w.callFunc(initFn, nil, nil, token.NoPos)
}

func (w *W) undoInitWrites() {
	for i := len(w.undo) - 1; i >= 0; i-- {
		u := w.undo[i]
		if u.m != nil {
			if u.had {
				if _, present := u.m.M[u.key]; !present {
					u.m.Keys = append(u.m.Keys, u.key)
				}
				u.m.M[u.key] = u.ent
			} else {
				delete(u.m.M, u.key)
				for j, k := range u.m.Keys {
					if k == u.key {
						u.m.Keys = append(u.m.Keys[:j], u.m.Keys[j+1:]...)
						break
					}
				}
			}
			continue
		}
		cell, ok := w.resolve(u.p)
		if ok {
			*cell = u.old
		}
	}
	w.undo = w.undo[:0]
}

// ---------------------------------------------------------------- constants and operands

func (w *W) constVal(c *ssa.Const) Value {
	if v, ok := w.constCache[c]; ok {
		return v
	}
	v := w.constVal0(c)
	w.constCache[c] = v
	return v
}

func (w *W) constVal0(c *ssa.Const) Value {
	t := c.Type()
	if c.Value == nil {
		w.inInit++ // zero values of consts are immutable, keep out of accounting
		defer func() { w.inInit-- }()
		return w.zero(t)
	}
	if wd, signed, ok := intKind(t); ok {
		if wd == 0 {
			return w.ts.Bool(constant.BoolVal(c.Value))
		}
		if c.Value.Kind() == constant.Int {
			if signed {
				if v, exact := constant.Int64Val(c.Value); exact {
					return w.ts.BV(wd, uint64(v))
				}
			}
			if v, exact := constant.Uint64Val(c.Value); exact {
				return w.ts.BV(wd, v)
			}
			if v, exact := constant.Int64Val(c.Value); exact {
				return w.ts.BV(wd, uint64(v))
			}
		}
		if c.Value.Kind() == constant.Float { // e.g. 1e3 typed as int
			if v, exact := constant.Int64Val(constant.ToInt(c.Value)); exact {
				return w.ts.BV(wd, uint64(v))
			}
		}
		unsupp("integer constant %s", c)
	}
	if isString(t) {
		return w.strConst(constant.StringVal(c.Value))
	}
	if b, ok := t.Underlying().(*types.Basic); ok && b.Info()&types.IsFloat != 0 {
		f, _ := constant.Float64Val(c.Value)
		return Native{f}
	}
	unsupp("constant %s of type %s", c, t)
	return nil
}

func (w *W) get(fr *frame, v ssa.Value) Value {
	switch x := v.(type) {
	case *ssa.Const:
		return w.constVal(x)
	case *ssa.Global:
		w.ensureInit(x.Pkg)
		return Ptr{O: w.global(x)}
	case *ssa.Function:
		return &Closure{Fn: x}
	case *ssa.Builtin:
		return x
	}
	r, ok := fr.regs[v]
	if !ok {
		panic(fmt.Sprintf("get: no value for %s (%T) in %s", v.Name(), v, fr.fn))
	}
	return r
}

// ---------------------------------------------------------------- calls

const maxDepth = 200

func (w *W) callFunc(fn *ssa.Function, args []Value, env []Value, pos token.Pos) Value {
	if fn.Synthetic == "package initializer" {
		// dependencies are initialised lazily, on first access to one of their globals
		if !w.allowInit {
			return nil
		}
		w.allowInit = false
	}
	if ic := w.intrinsicFor(fn); ic != nil {
		return ic(w, fn, args, pos)
	}
	if fn.Blocks == nil {
		if strings.HasPrefix(fn.Name(), "zz") {
			return w.prim(fn, args, pos)
		}
		unsupp("call to function without body: %s", fn)
	}
	if w.depth > maxDepth {
		unsupp("call depth exceeded in %s", fn)
	}
	w.depth++
	defer func() { w.depth-- }()
	if w.countAllocs && w.allocMute == 0 && isHarnessFn(fn) {
		// the harness's own writer / handler run inside ServeHTTP: not the middleware's allocations
		w.allocMute++
		defer func() { w.allocMute-- }()
	}
	fr := &frame{fn: fn, regs: make(map[ssa.Value]Value, 16), env: env}
	for i, p := range fn.Params {
		fr.regs[p] = args[i]
	}
	for i, fv := range fn.FreeVars {
		fr.regs[fv] = env[i]
	}
	w.fnCount[fn] += 0
	fr.block = fn.Blocks[0]
	for fr.block != nil {
		w.runBlock(fr)
	}
	return fr.result
}

func isHarnessFn(fn *ssa.Function) bool {
	for f := fn; f != nil; f = f.Parent() {
		n := f.Name()
		if strings.HasPrefix(n, "zz") {
			return true
		}
		if r := f.Signature.Recv(); r != nil && strings.Contains(r.Type().String(), ".zz") {
			return true
		}
	}
	return false
}

// callValue calls a function value (closure, builtin).
func (w *W) callValue(fv Value, args []Value, pos token.Pos, site ssa.Instruction) Value {
	switch f := fv.(type) {
	case *Closure:
		if f == nil {
			w.goPanic("call of nil function", pos)
		}
		return w.callFunc(f.Fn, args, f.Env, pos)
	case *ssa.Builtin:
		return w.builtin(f, args, pos, site)
	}
	panic(fmt.Sprintf("callValue: %T", fv))
}

func (w *W) lookupMethod(t types.Type, m *types.Func) *ssa.Function {
	ms := w.e.prog.MethodSets.MethodSet(t)
	sel := ms.Lookup(m.Pkg(), m.Name())
	if sel == nil {
		panic(fmt.Sprintf("method %s not found on %s", m.Name(), t))
	}
	return w.e.prog.MethodValue(sel)
}

func (w *W) doCall(fr *frame, cc *ssa.CallCommon, pos token.Pos, site ssa.Instruction) Value {
	args := make([]Value, 0, len(cc.Args)+1)
	if cc.IsInvoke() {
		recv := w.get(fr, cc.Value).(Iface)
		if recv.T == nil {
			w.goPanic("method call on nil interface: "+cc.Method.Name(), pos)
		}
		fn := w.lookupMethod(recv.T, cc.Method)
		args = append(args, recv.V)
		for _, a := range cc.Args {
			args = append(args, w.get(fr, a))
		}
		return w.callFunc(fn, args, nil, pos)
	}
	for _, a := range cc.Args {
		args = append(args, w.get(fr, a))
	}
	switch f := cc.Value.(type) {
	case *ssa.Function:
		return w.callFunc(f, args, nil, pos)
	case *ssa.Builtin:
		return w.builtin(f, args, pos, site)
	}
	return w.callValue(w.get(fr, cc.Value), args, pos, site)
}

// ---------------------------------------------------------------- block execution

func (w *W) runBlock(fr *frame) {
	b := fr.block
	// phis first, simultaneously
	nphi := 0
	if fr.skipPhis {
		fr.skipPhis = false
		for _, in := range b.Instrs {
			if _, ok := in.(*ssa.Phi); !ok {
				break
			}
			nphi++
		}
	} else if len(b.Instrs) > 0 {
		if _, ok := b.Instrs[0].(*ssa.Phi); ok {
			idx := -1
			for i, p := range b.Preds {
				if p == fr.prev {
					idx = i
					break
				}
			}
			if idx < 0 {
				panic("phi: predecessor not found")
			}
			var vals []Value
			for _, in := range b.Instrs {
				phi, ok := in.(*ssa.Phi)
				if !ok {
					break
				}
				vals = append(vals, w.get(fr, phi.Edges[idx]))
				nphi++
			}
			for i := 0; i < nphi; i++ {
				fr.regs[b.Instrs[i].(*ssa.Phi)] = vals[i]
			}
		}
	}
	w.steps += len(b.Instrs)
	w.fnCount[fr.fn] += len(b.Instrs)
	if w.steps > w.e.opts.MaxSteps {
		panic(pathEnd{endBudget, "step budget exceeded in " + fr.fn.String()})
	}
	for _, in := range b.Instrs[nphi:] {
		switch x := in.(type) {
		case *ssa.If:
			c := w.get(fr, x.Cond).(*Term)
			if !c.IsConst() && w.e.opts.Merge {
				if w.tryMerge(fr, b, c) {
					return
				}
			}
			fr.prev = b
			taken := w.branch(c, "if")
			if taken {
				fr.block = b.Succs[0]
			} else {
				fr.block = b.Succs[1]
			}
			if w.countAllocs && fr.fn.Pkg == w.e.rootPkg && !isHarnessFn(fr.fn) {
				w.corsBranch = append(w.corsBranch, fmt.Sprintf("%s#%d:%v;", fr.fn.Name(), b.Index, taken)...)
			}
			return
		case *ssa.Jump:
			fr.prev = b
			fr.block = b.Succs[0]
			return
		case *ssa.Return:
			w.doReturn(fr, x)
			return
		case *ssa.Panic:
			v := w.get(fr, x.X)
			w.goPanic("explicit panic: "+w.describe(v), x.Pos())
		default:
			w.exec(fr, in)
		}
	}
	panic("block fell through: " + fr.fn.String())
}

func (w *W) doReturn(fr *frame, x *ssa.Return) {
	switch len(x.Results) {
	case 0:
		fr.result = nil
	case 1:
		fr.result = w.get(fr, x.Results[0])
	default:
		t := make(Tuple, len(x.Results))
		for i, r := range x.Results {
			t[i] = w.get(fr, r)
		}
		fr.result = t
	}
	fr.block = nil
}

func (w *W) exec(fr *frame, in ssa.Instruction) {
	switch x := in.(type) {
	case *ssa.DebugRef:
	case *ssa.UnOp:
		fr.regs[x] = w.unop(fr, x)
	case *ssa.BinOp:
		fr.regs[x] = w.binop(x.Op, w.get(fr, x.X), w.get(fr, x.Y), x.X.Type(), x.Y.Type(), x.Pos())
	case *ssa.Call:
		fr.regs[x] = w.doCall(fr, &x.Call, x.Pos(), x)
	case *ssa.ChangeInterface:
		fr.regs[x] = w.get(fr, x.X)
	case *ssa.ChangeType:
		fr.regs[x] = w.get(fr, x.X)
	case *ssa.Convert:
		fr.regs[x] = w.convert(w.get(fr, x.X), x.X.Type(), x.Type(), x.Pos())
	case *ssa.MakeInterface:
		v := w.get(fr, x.X)
		if _, isPtr := x.X.Type().Underlying().(*types.Pointer); !isPtr {
			if _, isFn := x.X.Type().Underlying().(*types.Signature); !isFn {
				w.allocEvent("MakeInterface of non-pointer " + x.X.Type().String())
			}
		}
		fr.regs[x] = Iface{T: x.X.Type(), V: v}
	case *ssa.Extract:
		fr.regs[x] = w.get(fr, x.Tuple).(Tuple)[x.Index]
	case *ssa.Slice:
		fr.regs[x] = w.sliceOp(fr, x)
	case *ssa.Alloc:
		t := x.Type().(*types.Pointer).Elem()
		site := "local"
		if x.Heap {
			site = "new"
			w.allocEvent("new " + t.String())
		}
		o := w.newObj(w.zero(t), t, fmt.Sprintf("%s %s%s", site, t, w.posStr(x.Pos())))
		fr.regs[x] = Ptr{O: o}
	case *ssa.MakeSlice:
		n := w.concretizeInt(w.get(fr, x.Len).(*Term), 0, 1<<12, "make len")
		c := w.concretizeInt(w.get(fr, x.Cap).(*Term), 0, 1<<12, "make cap")
		if n < 0 || c < n {
			w.goPanic("makeslice: len out of range", x.Pos())
		}
		et := x.Type().Underlying().(*types.Slice).Elem()
		fr.regs[x] = w.makeSlice(et, int(n), int(c), "make"+w.posStr(x.Pos()))
	case *ssa.MakeMap:
		w.allocEvent("make map")
		w.nextObj++
		fr.regs[x] = &MapObj{ID: w.nextObj, M: map[string]mapEntry{}, Typ: x.Type().Underlying().(*types.Map), Init: w.inInit > 0}
	case *ssa.MakeClosure:
		w.allocEvent("closure")
		env := make([]Value, len(x.Bindings))
		for i, b := range x.Bindings {
			env[i] = w.get(fr, b)
		}
		fr.regs[x] = &Closure{Fn: x.Fn.(*ssa.Function), Env: env}
	case *ssa.FieldAddr:
		p := w.get(fr, x.X).(Ptr)
		if p.O == nil {
			w.goPanic("nil pointer dereference (field address)", x.Pos())
		}
		if p.Sym != nil {
			unsupp("field of symbolically indexed element")
		}
		fr.regs[x] = p.extend(int32(x.Field))
	case *ssa.Field:
		fr.regs[x] = copyVal(w.get(fr, x.X).(Struct)[x.Field])
	case *ssa.IndexAddr:
		fr.regs[x] = w.indexAddr(fr, x)
	case *ssa.Index:
		fr.regs[x] = w.indexOp(fr, x)
	case *ssa.Lookup:
		fr.regs[x] = w.lookup(fr, x)
	case *ssa.MapUpdate:
		m := w.get(fr, x.Map).(*MapObj)
		w.mapStore(m, w.get(fr, x.Key), w.get(fr, x.Value), x.Pos())
	case *ssa.Store:
		w.store(w.get(fr, x.Addr).(Ptr), w.get(fr, x.Val), x.Pos())
	case *ssa.TypeAssert:
		fr.regs[x] = w.typeAssert(w.get(fr, x.X).(Iface), x)
	case *ssa.Range:
		fr.regs[x] = w.rangeOp(w.get(fr, x.X), x)
	case *ssa.Next:
		fr.regs[x] = w.nextOp(w.get(fr, x.Iter).(*mapIter), x)
	case *ssa.Defer:
		cc := x.Call
		var fn Value
		args := make([]Value, 0, len(cc.Args)+1)
		if cc.IsInvoke() {
			recv := w.get(fr, cc.Value).(Iface)
			fn = &Closure{Fn: w.lookupMethod(recv.T, cc.Method)}
			args = append(args, recv.V)
		} else {
			fn = w.get(fr, cc.Value)
		}
		for _, a := range cc.Args {
			args = append(args, w.get(fr, a))
		}
		pos := x.Pos()
		fr.defers = append(fr.defers, func() { w.callValue(fn, args, pos, nil) })
	case *ssa.RunDefers:
		for i := len(fr.defers) - 1; i >= 0; i-- {
			fr.defers[i]()
		}
		fr.defers = nil
	case *ssa.Go:
		unsupp("go statement")
	case *ssa.Send, *ssa.Select, *ssa.MakeChan:
		unsupp("channel operation")
	case *ssa.SliceToArrayPointer:
		unsupp("slice to array pointer conversion")
	case *ssa.MultiConvert:
		unsupp("multiconvert")
	default:
		unsupp("instruction %T", in)
	}
}

// ---------------------------------------------------------------- instructions

func (w *W) unop(fr *frame, x *ssa.UnOp) Value {
	v := w.get(fr, x.X)
	switch x.Op {
	case token.MUL:
		return w.load(v.(Ptr), x.Pos())
	case token.NOT:
		return w.ts.Not(v.(*Term))
	case token.SUB:
		if t, ok := v.(*Term); ok {
			return w.ts.Neg(t)
		}
		unsupp("negation of %T", v)
	case token.XOR:
		return w.ts.BNot(v.(*Term))
	case token.ARROW:
		unsupp("channel receive")
	}
	unsupp("unop %s", x.Op)
	return nil
}

func (w *W) makeSlice(et types.Type, n, c int, site string) Slice {
	w.allocEvent("slice backing array " + site)
	arr := make(Array, c)
	for i := range arr {
		arr[i] = w.zero(et)
	}
	o := w.newObj(arr, types.NewArray(et, int64(c)), site)
	return Slice{O: o, Off: 0, Len: n, Cap: c}
}

func (w *W) sliceElemPtr(s Slice, i int) Ptr {
	np := make([]int32, len(s.Path)+1)
	copy(np, s.Path)
	np[len(s.Path)] = int32(s.Off + i)
	return Ptr{O: s.O, Path: np}
}

func (w *W) sliceGet(s Slice, i int) Value {
	return w.load(w.sliceElemPtr(s, i), token.NoPos)
}

func (w *W) indexAddr(fr *frame, x *ssa.IndexAddr) Value {
	idx := w.get(fr, x.Index).(*Term)
	idx = w.toInt64(idx, x.Index.Type())
	switch base := w.get(fr, x.X).(type) {
	case Slice:
		w.require(w.ts.Ult(idx, w.ts.Int64(int64(base.Len))), "index out of range (slice)", x.Pos())
		if idx.IsConst() {
			return w.sliceElemPtr(base, int(idx.Val))
		}
		return Ptr{O: base.O, Path: base.Path, Sym: w.ts.Add(idx, w.ts.Int64(int64(base.Off))), N: base.Len}
	case Ptr:
		if base.O == nil {
			w.goPanic("nil pointer dereference (index)", x.Pos())
		}
		at := x.X.Type().Underlying().(*types.Pointer).Elem().Underlying().(*types.Array)
		w.require(w.ts.Ult(idx, w.ts.Int64(at.Len())), "index out of range (array)", x.Pos())
		if idx.IsConst() {
			return base.extend(int32(idx.Val))
		}
		return Ptr{O: base.O, Path: base.Path, Sym: idx, N: int(at.Len())}
	}
	panic("indexAddr")
}

func (w *W) toInt64(t *Term, typ types.Type) *Term {
	if t.W == 64 {
		return t
	}
	_, signed, _ := intKind(typ)
	if signed {
		return w.ts.Sext(t, 64)
	}
	return w.ts.Zext(t, 64)
}

func (w *W) indexOp(fr *frame, x *ssa.Index) Value {
	idx := w.toInt64(w.get(fr, x.Index).(*Term), x.Index.Type())
	switch base := w.get(fr, x.X).(type) {
	case Array:
		w.require(w.ts.Ult(idx, w.ts.Int64(int64(len(base)))), "index out of range (array value)", x.Pos())
		if idx.IsConst() {
			return copyVal(base[idx.Val])
		}
		return w.selectSym(base, idx, x.Pos())
	case Str:
		w.require(w.ts.Ult(idx, base.Len), "index out of range (string)", x.Pos())
		return w.strByte(base, idx)
	}
	panic("indexOp")
}

func (w *W) lookup(fr *frame, x *ssa.Lookup) Value {
	switch base := w.get(fr, x.X).(type) {
	case Str:
		idx := w.toInt64(w.get(fr, x.Index).(*Term), x.Index.Type())
		w.require(w.ts.Ult(idx, base.Len), "index out of range (string)", x.Pos())
		return w.strByte(base, idx)
	case *MapObj:
		key := w.get(fr, x.Index)
		var v Value
		ok := false
		if base != nil {
			w.lockCheckMap(base, false, x.Pos())
			if e, found := base.M[w.mapKey(key)]; found {
				v, ok = copyVal(e.V), true
			}
		}
		if !ok {
			v = w.zero(x.X.Type().Underlying().(*types.Map).Elem())
		}
		if x.CommaOk {
			return Tuple{v, w.ts.Bool(ok)}
		}
		return v
	}
	panic("lookup")
}

func (w *W) mapKey(k Value) string {
	switch x := k.(type) {
	case Str:
		s, ok := w.conc(x)
		if !ok {
			unsupp("symbolic string as map key")
		}
		return "s" + s
	case *Term:
		if !x.IsConst() {
			unsupp("symbolic integer as map key")
		}
		return fmt.Sprintf("i%d", x.Val)
	case Ptr:
		return "p" + x.Key()
	case Iface:
		if x.T == nil {
			return "nil"
		}
		return "I" + typeKeyString(x.T) + ":" + w.mapKey(x.V)
	}
	unsupp("map key of type %T", k)
	return ""
}

func (w *W) mapStore(m *MapObj, k, v Value, pos token.Pos) {
	if m == nil {
		w.goPanic("assignment to entry in nil map", pos)
	}
	w.lockCheckMap(m, true, pos)
	if m.Frozen {
		w.violation("frozen-store", "store into published (frozen) map"+w.posStr(pos), nil)
	}
	key := w.mapKey(k)
	old, had := m.M[key]
	if m.Init && w.inInit == 0 {
		w.undo = append(w.undo, undoRec{m: m, key: key, had: had, ent: old})
	}
	if !had {
		m.Keys = append(m.Keys, key)
		if len(m.Keys) > 8 {
			w.allocEvent("map growth")
		}
	}
	m.M[key] = mapEntry{K: k, V: copyVal(v)}
}

func (w *W) mapDelete(m *MapObj, k Value, pos token.Pos) {
	if m == nil {
		return
	}
	w.lockCheckMap(m, true, pos)
	key := w.mapKey(k)
	old, had := m.M[key]
	if !had {
		return
	}
	if m.Init && w.inInit == 0 {
		w.undo = append(w.undo, undoRec{m: m, key: key, had: true, ent: old})
	}
	delete(m.M, key)
	for j, kk := range m.Keys {
		if kk == key {
			m.Keys = append(m.Keys[:j:j], m.Keys[j+1:]...)
			break
		}
	}
}

func (w *W) sliceOp(fr *frame, x *ssa.Slice) Value {
	var lo, hi, max *Term
	if x.Low != nil {
		lo = w.toInt64(w.get(fr, x.Low).(*Term), x.Low.Type())
	}
	if x.High != nil {
		hi = w.toInt64(w.get(fr, x.High).(*Term), x.High.Type())
	}
	if x.Max != nil {
		max = w.toInt64(w.get(fr, x.Max).(*Term), x.Max.Type())
	}
	ts := w.ts
	switch base := w.get(fr, x.X).(type) {
	case Str:
		if lo == nil {
			lo = ts.Int64(0)
		}
		if hi == nil {
			hi = base.Len
		}
		w.require(ts.And(ts.Ule(hi, base.Len), ts.Ule(lo, hi)), "slice bounds out of range (string)", x.Pos())
		return w.strSlice(base, lo, hi)
	case Slice:
		return w.resliceConcrete(base.O, base.Path, base.Off, base.Len, base.Cap, lo, hi, max, x)
	case Ptr:
		if base.O == nil {
			w.goPanic("nil pointer dereference (slice of array pointer)", x.Pos())
		}
		at := x.X.Type().Underlying().(*types.Pointer).Elem().Underlying().(*types.Array)
		n := int(at.Len())
		return w.resliceConcrete(base.O, base.Path, 0, n, n, lo, hi, max, x)
	}
	panic("sliceOp")
}

func (w *W) resliceConcrete(o *Obj, path []int32, off, ln, cp int, lo, hi, max *Term, x *ssa.Slice) Value {
	ts := w.ts
	l, h, m := 0, ln, cp
	if lo != nil {
		w.require(ts.Ule(lo, ts.Int64(int64(cp))), "slice bounds out of range (low)", x.Pos())
		l = int(w.concretizeInt(lo, 0, int64(cp), "slice low"))
	}
	if hi != nil {
		w.require(ts.Ule(hi, ts.Int64(int64(cp))), "slice bounds out of range (high)", x.Pos())
		h = int(w.concretizeInt(hi, 0, int64(cp), "slice high"))
	}
	if max != nil {
		w.require(ts.Ule(max, ts.Int64(int64(cp))), "slice bounds out of range (max)", x.Pos())
		m = int(w.concretizeInt(max, 0, int64(cp), "slice max"))
	}
	if l > h || h > m {
		w.goPanic(fmt.Sprintf("slice bounds out of range [%d:%d:%d] with capacity %d", l, h, m, cp), x.Pos())
	}
	if o == nil {
		return Slice{}
	}
	return Slice{O: o, Path: path, Off: off + l, Len: h - l, Cap: m - l}
}

func (w *W) implements(t types.Type, iface *types.Interface) bool {
	return types.Implements(t, iface)
}

func (w *W) typeAssert(v Iface, x *ssa.TypeAssert) Value {
	var ok bool
	var res Value
	if it, isIface := x.AssertedType.Underlying().(*types.Interface); isIface {
		ok = v.T != nil && w.implements(v.T, it)
		if ok {
			res = v
		} else {
			res = Iface{}
		}
	} else {
		ok = v.T != nil && types.Identical(v.T, x.AssertedType)
		if ok {
			res = v.V
		} else {
			res = w.zero(x.AssertedType)
		}
	}
	if x.CommaOk {
		return Tuple{res, w.ts.Bool(ok)}
	}
	if !ok {
		w.goPanic(fmt.Sprintf("interface conversion: %v is not %s", v.T, x.AssertedType), x.Pos())
	}
	return res
}

func (w *W) rangeOp(v Value, x *ssa.Range) Value {
	switch m := v.(type) {
	case *MapObj:
		it := &mapIter{m: m}
		if m != nil {
			w.lockCheckMap(m, false, x.Pos())
			it.keys = append([]string(nil), m.Keys...)
		}
		return it
	case Str:
		s, ok := w.conc(m)
		if !ok {
			unsupp("range over symbolic string")
		}
		return &mapIter{isStr: true, str: s}
	}
	panic("rangeOp")
}

func (w *W) nextOp(it *mapIter, x *ssa.Next) Value {
	ts := w.ts
	if it.isStr {
		if it.pos >= len(it.str) {
			return Tuple{ts.ff, ts.Int64(0), ts.BV(32, 0)}
		}
		r, n := utf8.DecodeRuneInString(it.str[it.pos:])
		start := it.pos
		it.pos += n
		return Tuple{ts.tt, ts.Int64(int64(start)), ts.BV(32, uint64(r))}
	}
	for it.pos < len(it.keys) {
		k := it.keys[it.pos]
		it.pos++
		if e, ok := it.m.M[k]; ok {
			return Tuple{ts.tt, e.K, copyVal(e.V)}
		}
	}
	mt := it.m
	var kz, vz Value = ts.Int64(0), ts.Int64(0)
	if mt != nil {
		kz, vz = w.zero(mt.Typ.Key()), w.zero(mt.Typ.Elem())
	}
	return Tuple{ts.ff, kz, vz}
}

// describe renders a value for diagnostics.
func (w *W) describe(v Value) string {
	switch x := v.(type) {
	case *Term:
		if x.IsConst() {
			if x.W == 0 {
				return fmt.Sprint(x.Val == 1)
			}
			return fmt.Sprint(x.Int())
		}
		return x.String()
	case Str:
		return w.describeStr(x)
	case Iface:
		if x.T == nil {
			return "nil"
		}
		return fmt.Sprintf("%s(%s)", x.T, w.describe(x.V))
	case Ptr:
		return "&" + x.Key()
	case Slice:
		if x.O == nil {
			return "[]nil"
		}
		var parts []string
		for i := 0; i < x.Len && i < 8; i++ {
			parts = append(parts, w.describe(w.sliceGet(x, i)))
		}
		return "[" + strings.Join(parts, " ") + "]"
	case Struct:
		var parts []string
		for _, e := range x {
			parts = append(parts, w.describe(e))
		}
		return "{" + strings.Join(parts, " ") + "}"
	}
	return fmt.Sprintf("%T", v)
}
