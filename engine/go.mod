module verif/engine

go 1.23.0

toolchain go1.23.5

require (
	golang.org/x/net v0.38.0
	golang.org/x/text v0.23.0
	golang.org/x/tools v0.29.0
)

require (
	golang.org/x/mod v0.22.0 // indirect
	golang.org/x/sync v0.12.0 // indirect
)

replace golang.org/x/sync => golang.org/x/sync v0.10.0

replace golang.org/x/mod => golang.org/x/mod v0.22.0
