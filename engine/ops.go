package main

import (
	"fmt"
	"go/token"
	"go/types"

	"golang.org/x/tools/go/ssa"
)

func (w *W) binop(op token.Token, x, y Value, xt, yt types.Type, pos token.Pos) Value {
	ts := w.ts
	switch a := x.(type) {
	case *Term:
		b, ok := y.(*Term)
		if !ok {
			panic(fmt.Sprintf("binop %s: %T vs %T", op, x, y))
		}
		if a.W == 0 {
			switch op {
			case token.EQL:
				return ts.Eq(a, b)
			case token.NEQ:
				return ts.Not(ts.Eq(a, b))
			case token.AND, token.LAND:
				return ts.And(a, b)
			case token.OR, token.LOR:
				return ts.Or(a, b)
			}
			unsupp("bool binop %s", op)
		}
		_, signed, _ := intKind(xt)
		switch op {
		case token.SHL, token.SHR:
			_, ysigned, _ := intKind(yt)
			if ysigned {
				w.require(ts.Sle(ts.BV(b.W, 0), b), "negative shift amount", pos)
			}
			// bring the count to a's width, saturating
			var cnt *Term
			switch {
			case b.W == a.W:
				cnt = b
			case b.W < a.W:
				cnt = ts.Zext(b, a.W)
			default:
				big := ts.Ule(ts.BV(b.W, uint64(a.W)), b)
				cnt = ts.Ite(big, ts.BV(a.W, uint64(a.W)), ts.Extract(b, 0, a.W))
			}
			if op == token.SHL {
				return ts.Bin(OpShl, a, cnt)
			}
			if signed {
				return ts.Bin(OpAshr, a, cnt)
			}
			return ts.Bin(OpLshr, a, cnt)
		}
		if a.W != b.W {
			panic(fmt.Sprintf("binop %s width mismatch %d vs %d (%s, %s)%s", op, a.W, b.W, xt, yt, w.posStr(pos)))
		}
		switch op {
		case token.ADD:
			return ts.Bin(OpAdd, a, b)
		case token.SUB:
			return ts.Bin(OpSub, a, b)
		case token.MUL:
			return ts.Bin(OpMul, a, b)
		case token.QUO, token.REM:
			w.require(ts.Not(ts.Eq(b, ts.BV(b.W, 0))), "integer divide by zero", pos)
			if b.IsConst() && b.Val == 0 {
				panic(pathEnd{endOK, "div by zero"})
			}
			switch {
			case op == token.QUO && signed:
				return ts.Bin(OpSDiv, a, b)
			case op == token.QUO:
				return ts.Bin(OpUDiv, a, b)
			case signed:
				return ts.Bin(OpSRem, a, b)
			default:
				return ts.Bin(OpURem, a, b)
			}
		case token.AND:
			return ts.Bin(OpBAnd, a, b)
		case token.OR:
			return ts.Bin(OpBOr, a, b)
		case token.XOR:
			return ts.Bin(OpBXor, a, b)
		case token.AND_NOT:
			return ts.Bin(OpBAnd, a, ts.BNot(b))
		case token.EQL:
			return ts.Eq(a, b)
		case token.NEQ:
			return ts.Not(ts.Eq(a, b))
		case token.LSS:
			if signed {
				return ts.Slt(a, b)
			}
			return ts.Ult(a, b)
		case token.LEQ:
			if signed {
				return ts.Sle(a, b)
			}
			return ts.Ule(a, b)
		case token.GTR:
			if signed {
				return ts.Slt(b, a)
			}
			return ts.Ult(b, a)
		case token.GEQ:
			if signed {
				return ts.Sle(b, a)
			}
			return ts.Ule(b, a)
		}
		unsupp("int binop %s", op)
	case Str:
		b := y.(Str)
		switch op {
		case token.ADD:
			return w.strConcat(a, b)
		case token.EQL:
			return w.strEq(a, b)
		case token.NEQ:
			return ts.Not(w.strEq(a, b))
		case token.LSS:
			return w.strLess(a, b)
		case token.GTR:
			return w.strLess(b, a)
		case token.LEQ:
			return ts.Not(w.strLess(b, a))
		case token.GEQ:
			return ts.Not(w.strLess(a, b))
		}
		unsupp("string binop %s", op)
	case Native:
		unsupp("arithmetic on native/float value (%s)", op)
	}
	switch op {
	case token.EQL:
		return w.eqVal(x, y)
	case token.NEQ:
		return ts.Not(w.eqVal(x, y))
	}
	unsupp("binop %s on %T", op, x)
	return nil
}

// eqVal is Go's == on non-scalar comparable values.
func (w *W) eqVal(x, y Value) *Term {
	ts := w.ts
	switch a := x.(type) {
	case *Term:
		return ts.Eq(a, y.(*Term))
	case Str:
		return w.strEq(a, y.(Str))
	case Ptr:
		b := y.(Ptr)
		if a.O != b.O {
			return ts.ff
		}
		if a.O == nil {
			return ts.tt
		}
		if a.Sym != nil || b.Sym != nil {
			unsupp("comparison of symbolically indexed pointers")
		}
		return ts.Bool(samePath(a.Path, b.Path))
	case *MapObj:
		b, _ := y.(*MapObj)
		return ts.Bool(a == b)
	case *Closure:
		b, _ := y.(*Closure)
		if a != nil && b != nil {
			unsupp("comparison of non-nil functions")
		}
		return ts.Bool(a == nil && b == nil)
	case Slice:
		b := y.(Slice)
		if a.O != nil && b.O != nil {
			unsupp("comparison of non-nil slices")
		}
		return ts.Bool(a.O == nil && b.O == nil)
	case Iface:
		b := y.(Iface)
		if a.T == nil || b.T == nil {
			return ts.Bool(a.T == nil && b.T == nil)
		}
		if !types.Identical(a.T, b.T) {
			return ts.ff
		}
		return w.eqVal(a.V, b.V)
	case Struct:
		b := y.(Struct)
		res := ts.tt
		for i := range a {
			res = ts.And(res, w.eqVal(a[i], b[i]))
		}
		return res
	case Array:
		b := y.(Array)
		res := ts.tt
		for i := range a {
			res = ts.And(res, w.eqVal(a[i], b[i]))
		}
		return res
	case Native:
		b, ok := y.(Native)
		if ok && a.V == nil && b.V == nil {
			return ts.tt
		}
		unsupp("comparison of native values")
	}
	unsupp("== on %T", x)
	return nil
}

// mergeVal returns ite(c, a, b) if the two values can be merged.
func (w *W) mergeVal(c *Term, a, b Value) (Value, bool) {
	ts := w.ts
	if c.IsTrue() {
		return a, true
	}
	if c.IsFalse() {
		return b, true
	}
	switch x := a.(type) {
	case *Term:
		y, ok := b.(*Term)
		if !ok || x.W != y.W {
			return nil, false
		}
		if w.narrowMerge && x.W > 32 && x != y {
			return nil, false // keep lengths and indices concrete: fork instead
		}
		return ts.Ite(c, x, y), true
	case Str:
		y, ok := b.(Str)
		if !ok {
			return nil, false
		}
		if w.narrowMerge && (x.B != y.B || x.Off != y.Off || x.Len != y.Len) {
			return nil, false
		}
		if x.B == y.B {
			return Str{B: x.B, Off: ts.Ite(c, x.Off, y.Off), Len: ts.Ite(c, x.Len, y.Len)}, true
		}
		// different bases: merge bytewise when both lengths are concrete and small
		if x.Len.IsConst() && y.Len.IsConst() && x.Len.Val <= 64 && y.Len.Val <= 64 && w.e.opts.MergeStrings {
			xb, yb := w.strBytes(x, "merge"), w.strBytes(y, "merge")
			n := max(len(xb), len(yb))
			out := make([]*Term, n)
			for i := range out {
				bx, by := ts.BV(8, 0), ts.BV(8, 0)
				if i < len(xb) {
					bx = xb[i]
				}
				if i < len(yb) {
					by = yb[i]
				}
				out[i] = ts.Ite(c, bx, by)
			}
			s := w.strFromBytes(out)
			s.Len = ts.Ite(c, x.Len, y.Len)
			return s, true
		}
		return nil, false
	case Ptr:
		y, ok := b.(Ptr)
		if !ok || x.O != y.O || !samePath(x.Path, y.Path) || x.Sym != y.Sym {
			return nil, false
		}
		return x, true
	case Slice:
		y, ok := b.(Slice)
		if !ok || x.O != y.O || x.Off != y.Off || x.Len != y.Len || x.Cap != y.Cap || !samePath(x.Path, y.Path) {
			return nil, false
		}
		return x, true
	case *MapObj:
		y, ok := b.(*MapObj)
		if !ok || x != y {
			return nil, false
		}
		return x, true
	case *Closure:
		y, ok := b.(*Closure)
		if !ok || x != y {
			return nil, false
		}
		return x, true
	case Iface:
		y, ok := b.(Iface)
		if !ok {
			return nil, false
		}
		if x.T == nil && y.T == nil {
			return x, true
		}
		if x.T == nil || y.T == nil || !types.Identical(x.T, y.T) {
			return nil, false
		}
		v, ok := w.mergeVal(c, x.V, y.V)
		if !ok {
			return nil, false
		}
		return Iface{T: x.T, V: v}, true
	case Struct:
		y, ok := b.(Struct)
		if !ok || len(x) != len(y) {
			return nil, false
		}
		out := make(Struct, len(x))
		for i := range x {
			v, ok := w.mergeVal(c, x[i], y[i])
			if !ok {
				return nil, false
			}
			out[i] = v
		}
		return out, true
	case Array:
		y, ok := b.(Array)
		if !ok || len(x) != len(y) {
			return nil, false
		}
		out := make(Array, len(x))
		for i := range x {
			v, ok := w.mergeVal(c, x[i], y[i])
			if !ok {
				return nil, false
			}
			out[i] = v
		}
		return out, true
	case Tuple:
		y, ok := b.(Tuple)
		if !ok || len(x) != len(y) {
			return nil, false
		}
		out := make(Tuple, len(x))
		for i := range x {
			v, ok := w.mergeVal(c, x[i], y[i])
			if !ok {
				return nil, false
			}
			out[i] = v
		}
		return out, true
	case nil:
		if b == nil {
			return nil, true
		}
	}
	return nil, false
}

func (w *W) convert(v Value, from, to types.Type, pos token.Pos) Value {
	ts := w.ts
	if fw, fsigned, ok := intKind(from); ok && fw != 0 {
		t := v.(*Term)
		if tw, _, ok := intKind(to); ok && tw != 0 {
			switch {
			case tw == fw:
				return t
			case tw < fw:
				return ts.Extract(t, 0, tw)
			case fsigned:
				return ts.Sext(t, tw)
			default:
				return ts.Zext(t, tw)
			}
		}
		if isString(to) {
			if !t.IsConst() {
				unsupp("string(int) of symbolic value")
			}
			return w.strConst(string(rune(t.Int())))
		}
		if tb, ok := to.Underlying().(*types.Basic); ok && tb.Info()&types.IsFloat != 0 {
			if !t.IsConst() {
				unsupp("int to float of symbolic value")
			}
			if fsigned {
				return Native{float64(t.Int())}
			}
			return Native{float64(t.Val)}
		}
		if tb, ok := to.Underlying().(*types.Basic); ok && tb.Kind() == types.UnsafePointer {
			unsupp("uintptr to unsafe.Pointer")
		}
	}
	if isString(from) {
		s := v.(Str)
		if isString(to) {
			return s
		}
		if sl, ok := to.Underlying().(*types.Slice); ok {
			eb, _ := sl.Elem().Underlying().(*types.Basic)
			if eb != nil && eb.Kind() == types.Uint8 {
				bs := w.strBytes(s, "[]byte(string)")
				res := w.makeSlice(sl.Elem(), len(bs), len(bs), "[]byte(string)"+w.posStr(pos))
				arr := res.O.V.(Array)
				for i, b := range bs {
					arr[i] = b
				}
				return res
			}
			if eb != nil && eb.Kind() == types.Int32 {
				c, ok := w.conc(s)
				if !ok {
					unsupp("[]rune(string) of symbolic string")
				}
				rs := []rune(c)
				res := w.makeSlice(sl.Elem(), len(rs), len(rs), "[]rune(string)")
				arr := res.O.V.(Array)
				for i, r := range rs {
					arr[i] = ts.BV(32, uint64(r))
				}
				return res
			}
		}
	}
	if sl, ok := from.Underlying().(*types.Slice); ok && isString(to) {
		s := v.(Slice)
		eb, _ := sl.Elem().Underlying().(*types.Basic)
		if eb != nil && eb.Kind() == types.Uint8 {
			bs := make([]*Term, s.Len)
			for i := range bs {
				bs[i] = w.sliceGet(s, i).(*Term)
			}
			if s.Len > 0 {
				w.allocEvent("string([]byte)")
			}
			return w.strFromBytes(bs)
		}
		if eb != nil && eb.Kind() == types.Int32 {
			rs := make([]rune, s.Len)
			for i := range rs {
				t := w.sliceGet(s, i).(*Term)
				if !t.IsConst() {
					unsupp("string([]rune) of symbolic runes")
				}
				rs[i] = rune(t.Int())
			}
			return w.strConst(string(rs))
		}
	}
	if _, ok := from.Underlying().(*types.Pointer); ok {
		if tb, ok := to.Underlying().(*types.Basic); ok && tb.Kind() == types.UnsafePointer {
			return v
		}
	}
	if fb, ok := from.Underlying().(*types.Basic); ok && fb.Kind() == types.UnsafePointer {
		if _, ok := to.Underlying().(*types.Pointer); ok {
			return v
		}
	}
	if n, ok := v.(Native); ok {
		if f, isF := n.V.(float64); isF {
			if tb, ok := to.Underlying().(*types.Basic); ok && tb.Info()&types.IsFloat != 0 {
				return Native{f}
			}
			if tw, tsigned, ok := intKind(to); ok && tw != 0 {
				if tsigned {
					return ts.BV(tw, uint64(int64(f)))
				}
				return ts.BV(tw, uint64(f))
			}
		}
	}
	unsupp("conversion %s -> %s", from, to)
	return nil
}

// ---------------------------------------------------------------- builtins

func (w *W) builtin(b *ssa.Builtin, args []Value, pos token.Pos, site ssa.Instruction) Value {
	ts := w.ts
	switch b.Name() {
	case "len":
		switch x := args[0].(type) {
		case Str:
			return x.Len
		case Slice:
			return ts.Int64(int64(x.Len))
		case *MapObj:
			if x == nil {
				return ts.Int64(0)
			}
			return ts.Int64(int64(len(x.M)))
		case Array:
			return ts.Int64(int64(len(x)))
		case Ptr: // pointer to array
			cell, _ := w.resolve(x)
			return ts.Int64(int64(len((*cell).(Array))))
		}
	case "cap":
		switch x := args[0].(type) {
		case Slice:
			return ts.Int64(int64(x.Cap))
		case Array:
			return ts.Int64(int64(len(x)))
		}
	case "append":
		return w.appendOp(args, pos, site)
	case "copy":
		dst := args[0].(Slice)
		switch src := args[1].(type) {
		case Slice:
			n := min(dst.Len, src.Len)
			tmp := make([]Value, n)
			for i := 0; i < n; i++ {
				tmp[i] = w.sliceGet(src, i)
			}
			for i := 0; i < n; i++ {
				w.store(w.sliceElemPtr(dst, i), tmp[i], pos)
			}
			return ts.Int64(int64(n))
		case Str:
			bs := w.strBytes(src, "copy from string")
			n := min(dst.Len, len(bs))
			for i := 0; i < n; i++ {
				w.store(w.sliceElemPtr(dst, i), bs[i], pos)
			}
			return ts.Int64(int64(n))
		}
	case "min", "max":
		res := args[0]
		var typ types.Type
		if call, ok := site.(*ssa.Call); ok {
			typ = call.Type()
		}
		for _, a := range args[1:] {
			switch x := res.(type) {
			case *Term:
				y := a.(*Term)
				signed := true
				if typ != nil {
					_, signed, _ = intKind(typ)
				}
				var lt *Term
				if signed {
					lt = ts.Slt(y, x)
				} else {
					lt = ts.Ult(y, x)
				}
				_ = lt
				if b.Name() == "max" {
					var gt *Term
					if signed {
						gt = ts.Slt(x, y)
					} else {
						gt = ts.Ult(x, y)
					}
					res = ts.Ite(gt, y, x)
				} else {
					res = ts.Ite(lt, y, x)
				}
			case Str:
				y := a.(Str)
				var c *Term
				if b.Name() == "min" {
					c = w.strLess(y, x)
				} else {
					c = w.strLess(x, y)
				}
				if w.branch(c, "min/max on strings") {
					res = y
				}
			default:
				unsupp("min/max on %T", res)
			}
		}
		return res
	case "delete":
		w.mapDelete(args[0].(*MapObj), args[1], pos)
		return nil
	case "clear":
		switch x := args[0].(type) {
		case *MapObj:
			if x != nil {
				for _, k := range append([]string(nil), x.Keys...) {
					w.mapDelete(x, x.M[k].K, pos)
				}
			}
			return nil
		case Slice:
			if x.Len > 0 {
				cell, _ := w.resolve(Ptr{O: x.O, Path: x.Path})
				et := x.O.Typ
				_ = et
				arr := (*cell).(Array)
				for i := 0; i < x.Len; i++ {
					w.store(w.sliceElemPtr(x, i), w.zeroLike(arr[x.Off+i]), pos)
				}
			}
			return nil
		}
	case "print", "println":
		return nil
	case "recover":
		return Iface{}
	case "ssa:wrapnilchk":
		if p, ok := args[0].(Ptr); ok && p.O == nil {
			w.goPanic("value method called using nil pointer", pos)
		}
		return args[0]
	}
	unsupp("builtin %s on %T", b.Name(), args[0])
	return nil
}

func (w *W) zeroLike(v Value) Value {
	ts := w.ts
	switch x := v.(type) {
	case *Term:
		if x.W == 0 {
			return ts.ff
		}
		return ts.BV(x.W, 0)
	case Str:
		return w.strConst("")
	case Ptr:
		return Ptr{}
	case Slice:
		return Slice{}
	case *MapObj:
		return (*MapObj)(nil)
	case Iface:
		return Iface{}
	case *Closure:
		return (*Closure)(nil)
	case Struct:
		out := make(Struct, len(x))
		for i := range x {
			out[i] = w.zeroLike(x[i])
		}
		return out
	case Array:
		out := make(Array, len(x))
		for i := range x {
			out[i] = w.zeroLike(x[i])
		}
		return out
	}
	unsupp("zeroLike %T", v)
	return nil
}

func (w *W) appendOp(args []Value, pos token.Pos, site ssa.Instruction) Value {
	dst := args[0].(Slice)
	var add []Value
	switch src := args[1].(type) {
	case Slice:
		add = make([]Value, src.Len)
		for i := range add {
			add[i] = w.sliceGet(src, i)
		}
	case Str:
		for _, b := range w.strBytes(src, "append string") {
			add = append(add, b)
		}
	default:
		panic(fmt.Sprintf("append: %T", args[1]))
	}
	if len(add) == 0 {
		return dst
	}
	need := dst.Len + len(add)
	if dst.O != nil && need <= dst.Cap {
		res := Slice{O: dst.O, Path: dst.Path, Off: dst.Off, Len: need, Cap: dst.Cap}
		for i, v := range add {
			w.store(w.sliceElemPtr(res, dst.Len+i), v, pos)
		}
		return res
	}
	// grow: fresh backing array
	newCap := dst.Cap * 2
	if newCap < need {
		newCap = need
	}
	var et types.Type
	if call, ok := site.(*ssa.Call); ok {
		et = call.Type().Underlying().(*types.Slice).Elem()
	} else {
		unsupp("append without type information")
	}
	res := w.makeSlice(et, need, newCap, "append growth"+w.posStr(pos))
	arr := res.O.V.(Array)
	for i := 0; i < dst.Len; i++ {
		arr[i] = w.sliceGet(dst, i)
	}
	for i, v := range add {
		arr[dst.Len+i] = copyVal(v)
	}
	return res
}
