package main

import (
	"crypto/sha1"
	"encoding/json"
	"flag"
	"fmt"
	"os"
	"os/exec"
	"path/filepath"
	"sort"
	"strings"
	"time"
)

// HarnessSpec names one harness entry of a property.
type HarnessSpec struct {
	Pkg       string   // harness package (directory under /verif/harness)
	Entry     string   // function name
	Reach     []string // reach tags that must be hit by at least one feasible path
	Secondary bool     // unit harness against internal identifiers: skipped (not failed) if it no longer type-checks
	Tiers     string   // "" both, "quick", "thorough"
	Twin      bool     // run the forced-false twin on this harness (default: first harness)
	NoMerge   bool
	MaxSteps  int
	EngineOnlyOK bool
}

type CheckSpec struct {
	ID        string
	Harnesses []HarnessSpec
	Bounds    map[string]string // tier -> bounds text
	Outside   string
	Explain   string
}

type KnownFinding struct {
	Status   string `json:"status"` // "known" or "fixed"
	Property string `json:"property"`
	Match    string `json:"match"` // substring of "<harness>: <kind>: <msg>" plus inputs rendering
	Inputs   string `json:"inputs,omitempty"`
	What     string `json:"what"`
	Commit   string `json:"commit,omitempty"`
}

type replayFile struct {
	Property  string     `json:"property"`
	Pkg       string     `json:"harness_pkg"`
	Entry     string     `json:"entry"`
	Tier      string     `json:"tier"`
	Kind      string     `json:"kind"`
	Msg       string     `json:"msg"`
	Decisions []int32    `json:"decisions"`
	Trace     []TraceOut `json:"trace"`
	Rendered  []string   `json:"inputs_rendered"`
	ForceFalse bool      `json:"force_false,omitempty"`
	Hooked     bool      `json:"hooked,omitempty"`
}

func renderTrace(tr []TraceOut) []string {
	var out []string
	for _, t := range tr {
		switch t.Kind {
		case "s":
			raw := make([]byte, len(t.S)/2)
			fmt.Sscanf(t.S, "%x", &raw)
			out = append(out, fmt.Sprintf("%q", string(raw)))
		case "b":
			out = append(out, fmt.Sprint(t.B))
		default:
			out = append(out, fmt.Sprint(t.I))
		}
	}
	return out
}

func engineOnlyKind(k string) bool {
	switch k {
	case "race", "lock", "frozen-store", "global-write", "alloc", "alias":
		return true
	}
	return false
}

func writeReplayFile(id, tier string, hs HarnessSpec, v *Violation, forceFalse bool) (string, error) {
	rf := replayFile{Property: id, Pkg: hs.Pkg, Entry: hs.Entry, Tier: tier, Kind: v.Kind, Msg: v.Msg,
		Decisions: v.Decisions, Trace: v.Trace, Rendered: renderTrace(v.Trace), ForceFalse: forceFalse, Hooked: v.Hooked}
	raw, _ := json.MarshalIndent(rf, "", " ")
	h := sha1.Sum(raw)
	dir := filepath.Join(verifDir, "replays", id)
	os.MkdirAll(dir, 0o755)
	p := filepath.Join(dir, fmt.Sprintf("%s_%x.json", hs.Entry, h[:6]))
	return p, os.WriteFile(p, raw, 0o644)
}

// nativeReplay runs the harness natively (go test -overlay) on the recorded
// primitive results. Returns reproduced?, output.
func nativeReplay(path string) (bool, string, error) {
	raw, err := os.ReadFile(path)
	if err != nil {
		return false, "", err
	}
	var rf replayFile
	if err := json.Unmarshal(raw, &rf); err != nil {
		return false, "", err
	}
	ov, err := overlayFor(rf.Pkg, "replay")
	if err != nil {
		return false, "", err
	}
	dst := filepath.Join(repoDir, pkgDirs[rf.Pkg])
	test := fmt.Sprintf(`package %s

import "testing"

func TestZZReplay(t *testing.T) {
	fails, pan, af := zzRunReplay(%s)
	if pan != nil {
		t.Fatalf("ZZ-PANIC: %%v (assertion failures before it: %%q)", pan, fails)
	}
	if len(fails) > 0 {
		t.Fatalf("ZZ-ASSERT-FAILED: %%q", fails)
	}
	if af {
		t.Log("ZZ-ASSUME-FAILED")
	}
	t.Log("ZZ-PASS")
}
`, rf.Pkg, rf.Entry)
	tag := fmt.Sprintf("%d_%d", os.Getpid(), time.Now().UnixNano())
	testPath := filepath.Join(verifDir, "build", "replay_"+tag+"_test.go")
	if err := os.WriteFile(testPath, []byte(test), 0o644); err != nil {
		return false, "", err
	}
	defer os.Remove(testPath)
	ov[filepath.Join(dst, "zz_verif_replay_test.go")] = testPath
	ovJSON, _ := json.Marshal(map[string]any{"Replace": ov})
	ovPath := filepath.Join(verifDir, "build", "overlay_"+tag+".json")
	if err := os.WriteFile(ovPath, ovJSON, 0o644); err != nil {
		return false, "", err
	}
	defer os.Remove(ovPath)
	cmd := exec.Command("timeout", "300", "go", "test", "-vet=off", "-count=1", "-v", "-run", "^TestZZReplay$", "-overlay", ovPath, pkgImportPath(rf.Pkg))
	cmd.Dir = repoDir
	cmd.Env = append(os.Environ(), "GOFLAGS=-mod=mod", "GOPROXY=off", "GOSUMDB=off", "GOTOOLCHAIN=local", "ZZ_TRACE="+path, "ZZ_TIER="+rf.Tier, fmt.Sprintf("ZZ_FORCE_FALSE=%v", rf.ForceFalse))
	out, err := cmd.CombinedOutput()
	txt := string(out)
	if strings.Contains(txt, "ZZ-PANIC") || strings.Contains(txt, "ZZ-ASSERT-FAILED") {
		return true, txt, nil
	}
	if strings.Contains(txt, "ZZ-PASS") {
		return false, txt, nil
	}
	if strings.Contains(txt, "panic:") && strings.Contains(txt, "zz replay") {
		return false, txt, fmt.Errorf("replay trace mismatch")
	}
	return false, txt, fmt.Errorf("replay run failed: %v", err)
}

// symbolicReplay re-runs the engine along the recorded decisions and reports
// whether the same violation recurs (used for engine-level findings that have
// no native observable: lock discipline, frozen stores, allocation classes).
func symbolicReplay(rf *replayFile) (bool, string, error) {
	opts := defaultOptions()
	opts.Workers = 1
	if rf.Tier == "thorough" {
		opts.Tier = 1
	}
	opts.MaxViolations = 1 << 30
	opts.MaxPaths = 1
	ld, err := loadProgram(rf.Pkg)
	if err != nil {
		return false, "", err
	}
	fn := ld.pkg.Func(rf.Entry)
	if fn == nil {
		return false, "", fmt.Errorf("entry %s not found", rf.Entry)
	}
	e := &Engine{prog: ld.prog, rootPkg: ld.pkg, entry: fn, opts: opts}
	e.hookFn = ld.pkg.Func("zzHookUnlock")
	e.initialPrefix = rf.Decisions
	if err := e.run(); err != nil {
		return false, "", err
	}
	for _, v := range e.violations {
		if v.Kind == rf.Kind && v.Msg == rf.Msg {
			return true, e.summary(), nil
		}
	}
	return false, e.summary(), nil
}

func cmdReplay(args []string) int {
	if len(args) < 2 {
		fmt.Fprintln(os.Stderr, "usage: gosym replay <id> <path>")
		return 2
	}
	raw, err := os.ReadFile(args[1])
	if err != nil {
		fmt.Fprintln(os.Stderr, err)
		return 2
	}
	var rf replayFile
	json.Unmarshal(raw, &rf)
	fmt.Printf("replaying %s %s/%s: %s: %s\ninputs: %v\n", rf.Property, rf.Pkg, rf.Entry, rf.Kind, rf.Msg, rf.Rendered)
	var ok bool
	var out string
	if engineOnlyKind(rf.Kind) || rf.Hooked {
		ok, out, err = symbolicReplay(&rf)
	} else {
		ok, out, err = nativeReplay(args[1])
	}
	fmt.Println(out)
	if err != nil {
		fmt.Fprintln(os.Stderr, "replay error:", err)
		return 2
	}
	if ok {
		fmt.Println("REPRODUCED")
		return 1
	}
	fmt.Println("NOT REPRODUCED")
	return 0
}

func loadKnownFindings() []KnownFinding {
	raw, err := os.ReadFile(filepath.Join(verifDir, "known_findings.json"))
	if err != nil {
		return nil
	}
	var kf struct {
		Findings []KnownFinding `json:"findings"`
	}
	if err := json.Unmarshal(raw, &kf); err != nil {
		fmt.Fprintln(os.Stderr, "known_findings.json:", err)
		return nil
	}
	return kf.Findings
}

type harnessResult struct {
	Spec     HarnessSpec
	E        *Engine
	Err      error
	Skipped  string
	Wall     float64
}

func tierName(t int) string {
	if t == 1 {
		return "thorough"
	}
	return "quick"
}

func cmdCheck(args []string) int {
	fs := flag.NewFlagSet("check", flag.ExitOnError)
	tier := fs.String("tier", "", "quick|thorough")
	verbose := fs.Bool("v", false, "progress")
	noTwin := fs.Bool("no-twin", false, "skip the forced-false vacuity twin")
	only := fs.String("only", "", "run only this harness entry")
	workers := fs.Int("workers", 0, "workers")
	if len(args) < 1 {
		fmt.Fprintln(os.Stderr, "usage: gosym check <id> [--tier quick|thorough]")
		return 2
	}
	id := args[0]
	fs.Parse(args[1:])
	if *tier == "" {
		*tier = os.Getenv("VERIF_TIER")
	}
	if *tier == "" {
		*tier = "quick"
	}
	spec, ok := checkSpecs[id]
	if !ok {
		fmt.Fprintln(os.Stderr, "unknown property", id)
		return 2
	}
	seed := int64(0)
	fmt.Sscan(os.Getenv("VERIF_SEED"), &seed)
	start := time.Now()
	os.Remove(filepath.Join(verifDir, "evidence", id+".json"))

	var results []*harnessResult
	total := Stats{}
	exit := 0
	var reasons []string
	inconclusive := func(r string) {
		reasons = append(reasons, r)
		if exit == 0 {
			exit = 2
		}
	}
	var confirmed []*Violation
	known := loadKnownFindings()
	var knownLines []string
	twinDone := *noTwin
	var twinInfo map[string]any
	primaryOK := false

	for _, hs := range spec.Harnesses {
		if hs.Tiers != "" && hs.Tiers != *tier {
			continue
		}
		if *only != "" && hs.Entry != *only {
			continue
		}
		opts := defaultOptions()
		opts.Seed = seed
		opts.Verbose = *verbose
		if *workers > 0 {
			opts.Workers = *workers
		}
		if *tier == "thorough" {
			opts.Tier = 1
			opts.Solver3 = "cvc5"
			opts.ConfirmEvery = 1
		}
		if hs.NoMerge {
			opts.Merge = false
		}
		if hs.MaxSteps > 0 {
			opts.MaxSteps = hs.MaxSteps
		}
		opts.MaxViolations = 4
		t0 := time.Now()
		e, err := runHarness(hs.Pkg, hs.Entry, opts)
		hr := &harnessResult{Spec: hs, E: e, Err: err, Wall: time.Since(t0).Seconds()}
		results = append(results, hr)
		if err != nil && e == nil {
			if hs.Secondary && strings.Contains(err.Error(), "type errors") {
				hr.Skipped = "anchor missing: " + firstLine(err.Error())
				fmt.Printf("SKIPPED secondary harness %s: %s\n", hs.Entry, hr.Skipped)
				continue
			}
			inconclusive(fmt.Sprintf("harness %s failed to load: %v", hs.Entry, err))
			continue
		}
		if err != nil {
			inconclusive(fmt.Sprintf("harness %s: engine error: %v", hs.Entry, err))
		}
		if !hs.Secondary {
			primaryOK = true
		}
		s := e.stats
		total.add(&s)
		if *verbose {
			fmt.Print(e.summary())
		}
		fmt.Printf("harness %s/%s: %d paths, %d obligations (%d discharged), %d forks, %.1fs\n", hs.Pkg, hs.Entry, s.Paths, s.Obligations, s.Discharged, s.Forks, hr.Wall)
		if s.Unsupported > 0 {
			inconclusive(fmt.Sprintf("%s: %d paths ended in an unsupported construct: %v", hs.Entry, s.Unsupported, keys(e.unsupported)))
		}
		if s.Budget > 0 {
			inconclusive(fmt.Sprintf("%s: UNWIND: %d paths exceeded the step budget: %v", hs.Entry, s.Budget, keys(e.budgetHits)))
		}
		if s.Inconclusive > 0 {
			inconclusive(fmt.Sprintf("%s: %d deciding queries inconclusive (unknown/timeout)", hs.Entry, s.Inconclusive))
		}
		if s.Disagreements > 0 {
			exit = 3
			reasons = append(reasons, fmt.Sprintf("%s: %d solver disagreements", hs.Entry, s.Disagreements))
		}
		if e.solverErrors > 0 {
			inconclusive(fmt.Sprintf("%s: %d solver errors", hs.Entry, e.solverErrors))
		}
		if len(e.violations) == 0 {
			for _, tag := range hs.Reach {
				if e.reach[tag] == 0 {
					inconclusive(fmt.Sprintf("%s: VACUOUS: reach tag %q hit by no feasible path", hs.Entry, tag))
				}
			}
		}
		for _, n := range e.notes {
			if strings.Contains(n, "truncated") {
				inconclusive(hs.Entry + ": " + n)
			}
		}
		// violations
		for _, v := range e.violations {
			path, err := writeReplayFile(id, *tier, hs, v, false)
			if err != nil {
				inconclusive("cannot write replay file: " + err.Error())
				continue
			}
			v.Path = path
			var rep bool
			var out string
			var rerr error
			if engineOnlyKind(v.Kind) {
				rep, out, rerr = true, "engine-level finding (no native observable); replay re-executes the decision prefix symbolically", nil
				v.Confirmed = "engine"
			} else if v.Hooked {
				rep, out, rerr = true, "the schedule interferes right after an Unlock/RUnlock, a point that only the engine's mutex model can force; replay re-executes the decision prefix symbolically", nil
				v.Confirmed = "engine"
			} else {
				rep, out, rerr = nativeReplay(path)
				v.Confirmed = "native"
			}
			v.ReplayOut = tail(out, 1500)
			desc := fmt.Sprintf("%s: %s: %s inputs=%v", hs.Entry, v.Kind, v.Msg, renderTrace(v.Trace))
			if rerr != nil {
				exit = 3
				reasons = append(reasons, "replay failed to run for "+desc+": "+rerr.Error())
				fmt.Printf("ENGINE-DISAGREEMENT property=%s replay could not run: %v\n%s\n", id, rerr, tail(out, 3000))
				continue
			}
			if !rep {
				exit = 3
				reasons = append(reasons, "counterexample did not reproduce natively: "+desc)
				fmt.Printf("ENGINE-DISAGREEMENT property=%s model does not reproduce natively: %s (replay=%s)\n", id, desc, path)
				continue
			}
			matched := false
			for _, k := range known {
				if k.Status == "known" && k.Property == id && strings.Contains(desc, k.Match) && (k.Inputs == "" || strings.Contains(fmt.Sprint(renderTrace(v.Trace)), k.Inputs)) {
					knownLines = append(knownLines, fmt.Sprintf("KNOWN-FINDING: property=%s %s", id, k.What))
					matched = true
					os.Remove(path)
					break
				}
			}
			if matched {
				continue
			}
			confirmed = append(confirmed, v)
			fmt.Printf("counterexample: %s\n", desc)
		}
		// vacuity twin on the first harness that ran
		if !twinDone && len(e.violations) == 0 {
			twinDone = true
			twinInfo = runTwin(id, *tier, hs, opts)
			if twinInfo["ok"] != true {
				inconclusive(fmt.Sprintf("vacuity twin of %s failed: %v", hs.Entry, twinInfo["detail"]))
			}
		}
	}
	if !primaryOK && exit == 0 {
		inconclusive("no primary harness ran")
	}
	seenK := map[string]bool{}
	for _, l := range knownLines {
		if !seenK[l] {
			seenK[l] = true
			fmt.Println(l)
		}
	}
	if len(confirmed) > 0 {
		exit = 1
	}
	writeEvidence(id, *tier, seed, spec, results, total, confirmed, knownLines, twinInfo, reasons, time.Since(start).Seconds())
	for _, v := range confirmed {
		fmt.Printf("VIOLATION property=%s replay=%s\n", id, v.Path)
	}
	switch exit {
	case 0:
		fmt.Printf("OK property=%s tier=%s paths=%d obligations=%d discharged=%d wall=%.1fs\n", id, *tier, total.Paths, total.Obligations, total.Discharged, time.Since(start).Seconds())
	case 2:
		for _, r := range reasons {
			fmt.Printf("INCONCLUSIVE property=%s reason=%s\n", id, r)
		}
	case 3:
		for _, r := range reasons {
			fmt.Printf("ENGINE-DISAGREEMENT property=%s reason=%s\n", id, r)
		}
	}
	return exit
}

func runTwin(id, tier string, hs HarnessSpec, opts Options) map[string]any {
	opts.ForceFalse = true
	opts.MaxViolations = 1
	opts.Solver3 = ""
	info := map[string]any{"harness": hs.Entry}
	e, err := runHarness(hs.Pkg, hs.Entry, opts)
	if err != nil || e == nil {
		info["ok"] = false
		info["detail"] = fmt.Sprint("twin run failed: ", err)
		return info
	}
	if len(e.violations) == 0 {
		info["ok"] = false
		info["detail"] = "forced-false twin produced no counterexample: the harness's assertions are unreachable"
		return info
	}
	v := e.violations[0]
	path, _ := writeReplayFile(id, tier, hs, v, true)
	defer os.Remove(path)
	rep, out, rerr := nativeReplay(path)
	info["model_found"] = true
	info["native_replay_failed_as_it_must"] = rep
	info["inputs"] = renderTrace(v.Trace)
	if rerr != nil || !rep {
		info["ok"] = false
		info["detail"] = fmt.Sprintf("twin counterexample did not fail natively (err=%v): %s", rerr, tail(out, 800))
		return info
	}
	info["ok"] = true
	return info
}

func firstLine(s string) string {
	if i := strings.IndexByte(s, '\n'); i >= 0 {
		if j := strings.IndexByte(s[i+1:], '\n'); j >= 0 {
			return s[:i] + " |" + s[i+1:i+1+j]
		}
	}
	return s
}

func tail(s string, n int) string {
	if len(s) <= n {
		return s
	}
	return "…" + s[len(s)-n:]
}

func keys(m map[string]int) []string {
	var out []string
	for k := range m {
		out = append(out, k)
	}
	sort.Strings(out)
	return out
}

func writeEvidence(id, tier string, seed int64, spec CheckSpec, results []*harnessResult, total Stats,
	confirmed []*Violation, known []string, twin map[string]any, reasons []string, wall float64) {
	fnCount := map[string]int{}
	reach := map[string]int64{}
	solverTime := map[string]float64{}
	solverQueries := map[string]int{}
	var samples []any
	var harnesses []any
	used := map[string]bool{}
	unsupp := map[string]int{}
	var allocInfo []any
	confirmErrs := 0
	for _, r := range results {
		if r.E != nil {
			confirmErrs += r.E.confirmErrors
		}
		h := map[string]any{"package": r.Spec.Pkg, "entry": r.Spec.Entry, "secondary": r.Spec.Secondary, "wall_s": r.Wall}
		if r.Skipped != "" {
			h["skipped"] = r.Skipped
		}
		if r.E != nil {
			s := r.E.stats
			h["paths"] = s.Paths
			h["paths_ok"] = s.PathsOK
			h["paths_assume_false"] = s.AssumeFalse
			h["obligations"] = s.Obligations
			h["discharged"] = s.Discharged
			h["forks"] = s.Forks
			h["pruned_infeasible"] = s.Pruned
			h["region_merges"] = s.Merges
			for f, n := range r.E.fnCount {
				fnCount[f] += n
			}
			for t, n := range r.E.reach {
				reach[r.Spec.Entry+":"+t] += n
			}
			for n, d := range r.E.solverTime {
				solverTime[n] += d.Seconds()
				solverQueries[n] += r.E.solverQueries[n]
			}
			for i, sm := range r.E.samples {
				if i < 4 {
					samples = append(samples, map[string]any{"harness": r.Spec.Entry, "decisions": sm.Decisions, "path_condition_conjuncts": sm.PCSize, "assertions_on_path": sm.Asserts, "one_model_of_the_path_condition_as_harness_inputs": sm.Rendered})
				}
			}
			for k := range r.E.used {
				used[k] = true
			}
			for m, n := range r.E.unsupported {
				unsupp[m] += n
			}
			for cls, ac := range r.E.allocClasses {
				if len(allocInfo) < 40 {
					allocInfo = append(allocInfo, map[string]any{"harness": r.Spec.Entry, "branch_class": cls, "alloc_site_events": ac.Count, "paths": ac.N, "events": ac.Log})
				}
			}
		}
		if r.Err != nil {
			h["error"] = r.Err.Error()
		}
		harnesses = append(harnesses, h)
	}
	// functions of the module actually executed
	type fc struct {
		Name string `json:"name"`
		N    int    `json:"ssa_instructions_executed"`
	}
	var fns []fc
	for f, n := range fnCount {
		if strings.Contains(f, "jub0bs/cors") && !strings.Contains(f, ".zz") {
			fns = append(fns, fc{f, n})
		}
	}
	sort.Slice(fns, func(i, j int) bool { return fns[i].N > fns[j].N })
	var otherFns []string
	for f := range fnCount {
		if !strings.Contains(f, "jub0bs/cors") {
			otherFns = append(otherFns, f)
		}
	}
	sort.Strings(otherFns)
	for _, v := range confirmed {
		samples = append(samples, map[string]any{"violation": v.Kind + ": " + v.Msg, "harness": v.Harness, "inputs": renderTrace(v.Trace), "replay": v.Path, "confirmed_by": v.Confirmed})
	}
	if twin != nil && len(samples) < 4 {
		samples = append(samples, map[string]any{"vacuity_twin_counterexample_inputs": twin["inputs"], "harness": twin["harness"]})
	}
	if len(samples) == 0 {
		samples = append(samples, map[string]any{"note": "no symbolic path reached an assertion"})
	}
	assumptions := []string{
		"bounded claim: holds for all values within the stated bounds; nothing is claimed outside them",
		"encoding regenerated from /repo's working tree by go/packages + go/ssa (x/tools v0.29.0) on this run",
		"Go integers are bit-vectors of their real width with wrapping semantics; strings are byte vectors with a symbolic length",
		"bounds: " + spec.Bounds[tier],
		"outside the claim: " + spec.Outside,
	}
	var usedKeys []string
	for k := range used {
		usedKeys = append(usedKeys, k)
	}
	sort.Strings(usedKeys)
	for _, k := range usedKeys {
		if n, ok := intrinsicNotes[k]; ok {
			assumptions = append(assumptions, n)
		}
	}
	cov := map[string]any{
		"explanation":             spec.Explain,
		"technique":               "bounded symbolic execution of the real go/ssa form; every assertion and every panic site is a solver query (z3 5.1 primary, z3 4.8.12 confirming, cvc5 in the thorough tier); counterexamples replayed natively with go test -overlay",
		"functions_encoded":       fns,
		"dependency_functions_interpreted": otherFns,
		"bounds":                  spec.Bounds[tier],
		"harnesses":               harnesses,
		"paths_explored":          total.Paths,
		"paths_pruned_infeasible": total.Pruned,
		"paths_assume_false":      total.AssumeFalse,
		"obligations":             total.Obligations,
		"discharged":              total.Discharged,
		"concrete_assertions":     total.ConcreteAsserts,
		"concrete_panic_checks":   total.ConcreteChecks,
		"panic_checks_implied_syntactically": total.ImpliedChecks,
		"feasibility_queries":     total.FeasQueries,
		"deciding_batch_queries":  total.BatchQueries,
		"confirm_queries":         total.ConfirmQueries,
		"confirm_unknown":         total.ConfirmUnknown,
		"deciding_query_retries":  total.Retries,
		"confirming_solver_errors": confirmErrs,
		"solver_time_s":           solverTime,
		"solver_queries":          solverQueries,
		"solver_disagreements":    total.Disagreements,
		"unwind_hits":             total.Budget,
		"unsupported_hits":        unsupp,
		"region_merges":           total.Merges,
		"reach_tags":              reach,
		"vacuity_witness":         twin,
		"evaluations":             total.Paths,
		"distinct_nontrivial":     total.NontrivialPaths,
		"rule":                    "one evaluation = one explored path (distinct decision prefix, hence distinct path condition); non-trivial = its path condition constrains at least one symbolic input and it reached at least one assertion",
		"samples":                 samples,
		"exhaustive":              len(reasons) == 0,
		"known_findings":          known,
		"ssa_steps":               total.Steps,
	}
	if len(allocInfo) > 0 {
		cov["allocation_classes"] = allocInfo
	}
	if len(reasons) > 0 {
		cov["inconclusive_reasons"] = reasons
	}
	ev := map[string]any{
		"property_id": id, "tier": tier, "seed": seed, "level": "other",
		"coverage": cov, "assumptions": assumptions, "wall_s": wall, "violations": len(confirmed),
	}
	raw, _ := json.MarshalIndent(ev, "", " ")
	os.MkdirAll(filepath.Join(verifDir, "evidence"), 0o755)
	os.WriteFile(filepath.Join(verifDir, "evidence", id+".json"), raw, 0o644)
}
