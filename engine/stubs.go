package main

import (
	"fmt"
	"os"
)

// cmdSelftest validates the engine itself before any check result is
// believed: (1) interval-domain verdicts are cross-checked against the solver
// on sample harnesses; (2) see selftest_diff.go for the translator validation
// against the natively compiled functions.
func cmdSelftest(args []string) int {
	type st struct {
		pkg, entry string
		maxPaths   int64
	}
	runs := []st{
		{"headers", "zzH_smoke_trim", 0},
		{"headers", "zzH_smoke_check", 0},
		{"cors", "zzH_C03_api", 1500},
	}
	for _, r := range runs {
		opts := defaultOptions()
		opts.CheckAbstract = true
		opts.MaxPaths = r.maxPaths
		opts.ConfirmEvery = 1
		e, err := runHarness(r.pkg, r.entry, opts)
		if err != nil {
			fmt.Fprintln(os.Stderr, "selftest: ", r.entry, err)
			return 2
		}
		s := e.stats
		if len(e.violations) > 0 || s.Unsupported > 0 || s.Disagreements > 0 || s.Inconclusive > 0 {
			fmt.Fprintf(os.Stderr, "selftest: %s: violations=%d unsupported=%d disagreements=%d inconclusive=%d\n%s", r.entry, len(e.violations), s.Unsupported, s.Disagreements, s.Inconclusive, e.summary())
			return 2
		}
		fmt.Printf("selftest %s/%s: %d paths, %d interval verdicts cross-checked against the solver, %d obligations confirmed by the second solver\n", r.pkg, r.entry, s.Paths, s.AbsCrossChecks, s.Discharged)
	}
	if rc := selftestDiff(); rc != 0 {
		return rc
	}
	fmt.Println("selftest OK")
	return 0
}
