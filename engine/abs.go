package main

// Path-sensitive interval reasoning: a cheap, sound pre-filter in front of the
// solver. Variable ranges are narrowed by the facts that enter the path
// condition; a condition that the intervals decide needs no solver call.
// Everything derived here is implied by the path condition (cross-checked
// against the solver in selftest mode, Options.CheckAbstract).

type rng struct{ lo, hi uint64 }

type tri int8

const (
	triUnknown tri = iota
	triTrue
	triFalse
)

func (w *W) absReset() {
	w.vb = map[int32]rng{}
	w.rmemo = map[int32]rng{}
	w.bmemo = map[int32]tri{}
}

func (w *W) absInvalidate() {
	if len(w.rmemo) > 0 {
		w.rmemo = map[int32]rng{}
	}
	if len(w.bmemo) > 0 {
		w.bmemo = map[int32]tri{}
	}
}

// rangeOf: unsigned interval of a bit-vector term under the current variable bounds.
func (w *W) rangeOf(t *Term) rng {
	if t.Op == OpConst {
		return rng{t.Val, t.Val}
	}
	if r, ok := w.rmemo[t.ID]; ok {
		return r
	}
	r := w.rangeOf0(t)
	// never wider than the path-independent range
	if r.lo < t.lo {
		r.lo = t.lo
	}
	if r.hi > t.hi {
		r.hi = t.hi
	}
	if r.lo > r.hi { // contradictory (infeasible path): keep something well-formed
		r = rng{t.lo, t.hi}
	}
	w.rmemo[t.ID] = r
	return r
}

func (w *W) rangeOf0(t *Term) rng {
	m := mask(t.W)
	full := rng{0, m}
	switch t.Op {
	case OpVar:
		if r, ok := w.vb[t.ID]; ok {
			return r
		}
		return rng{t.lo, t.hi}
	case OpZext:
		return w.rangeOf(t.A[0])
	case OpSext:
		a := w.rangeOf(t.A[0])
		if a.hi < uint64(1)<<(t.A[0].W-1) {
			return a
		}
	case OpExtract:
		a := w.rangeOf(t.A[0])
		if t.Val == 0 && a.hi <= m {
			return a
		}
	case OpBAnd:
		a, b := w.rangeOf(t.A[0]), w.rangeOf(t.A[1])
		return rng{0, min(a.hi, b.hi)}
	case OpLshr:
		a := w.rangeOf(t.A[0])
		if t.A[1].Op == OpConst && t.A[1].Val < 64 {
			return rng{a.lo >> t.A[1].Val, a.hi >> t.A[1].Val}
		}
		return rng{0, a.hi}
	case OpURem:
		a, b := w.rangeOf(t.A[0]), w.rangeOf(t.A[1])
		if b.lo > 0 {
			return rng{0, min(a.hi, b.hi-1)}
		}
		return rng{0, a.hi}
	case OpUDiv:
		a, b := w.rangeOf(t.A[0]), w.rangeOf(t.A[1])
		if b.lo > 0 {
			return rng{a.lo / b.hi, a.hi / b.lo}
		}
	case OpAdd:
		a, b := w.rangeOf(t.A[0]), w.rangeOf(t.A[1])
		if s := a.hi + b.hi; s >= a.hi && s <= m {
			return rng{a.lo + b.lo, s}
		}
		// x + (-k): no wrap-around if lo(x) >= k
		if t.A[1].Op == OpConst {
			k := (-t.A[1].Val) & m
			if k != 0 && k <= m/2 && a.lo >= k {
				return rng{a.lo - k, a.hi - k}
			}
		}
	case OpSub:
		a, b := w.rangeOf(t.A[0]), w.rangeOf(t.A[1])
		if a.lo >= b.hi {
			return rng{a.lo - b.hi, a.hi - b.lo}
		}
	case OpIte:
		switch w.decide(t.A[0]) {
		case triTrue:
			return w.rangeOf(t.A[1])
		case triFalse:
			return w.rangeOf(t.A[2])
		}
		x, y := w.rangeOf(t.A[1]), w.rangeOf(t.A[2])
		return rng{min(x.lo, y.lo), max(x.hi, y.hi)}
	}
	return full
}

// decide: truth value of a Boolean term under the current variable bounds, if determined.
func (w *W) decide(c *Term) tri {
	if c.Op == OpConst {
		if c.Val == 1 {
			return triTrue
		}
		return triFalse
	}
	if _, ok := w.pcSet[c.ID]; ok {
		return triTrue
	}
	if c.Op == OpNot {
		if _, ok := w.pcSet[c.A[0].ID]; ok {
			return triFalse
		}
	} else if n, ok := w.ts.tab[termKey{OpNot, 0, 0, c.ID, -1, -1, ""}]; ok {
		if _, ok := w.pcSet[n.ID]; ok {
			return triFalse
		}
	}
	if v, ok := w.bmemo[c.ID]; ok {
		return v
	}
	v := w.decide0(c)
	w.bmemo[c.ID] = v
	return v
}

func neg(t tri) tri {
	switch t {
	case triTrue:
		return triFalse
	case triFalse:
		return triTrue
	}
	return triUnknown
}

func (w *W) decide0(c *Term) tri {
	switch c.Op {
	case OpNot:
		if _, ok := w.pcSet[c.ID]; ok {
			return triTrue
		}
		return neg(w.decide(c.A[0]))
	case OpAnd:
		a, b := w.decide(c.A[0]), w.decide(c.A[1])
		if a == triFalse || b == triFalse {
			return triFalse
		}
		if a == triTrue && b == triTrue {
			return triTrue
		}
	case OpOr:
		a, b := w.decide(c.A[0]), w.decide(c.A[1])
		if a == triTrue || b == triTrue {
			return triTrue
		}
		if a == triFalse && b == triFalse {
			return triFalse
		}
	case OpIte:
		switch w.decide(c.A[0]) {
		case triTrue:
			return w.decide(c.A[1])
		case triFalse:
			return w.decide(c.A[2])
		}
		a, b := w.decide(c.A[1]), w.decide(c.A[2])
		if a == b {
			return a
		}
	case OpEq:
		if c.A[0].W == 0 {
			a, b := w.decide(c.A[0]), w.decide(c.A[1])
			if a != triUnknown && b != triUnknown {
				if a == b {
					return triTrue
				}
				return triFalse
			}
			return triUnknown
		}
		a, b := w.rangeOf(c.A[0]), w.rangeOf(c.A[1])
		if a.hi < b.lo || b.hi < a.lo {
			return triFalse
		}
		if a.lo == a.hi && b.lo == b.hi && a.lo == b.lo {
			return triTrue
		}
	case OpUlt, OpUle, OpSlt, OpSle:
		a, b := w.rangeOf(c.A[0]), w.rangeOf(c.A[1])
		op := c.Op
		if op == OpSlt || op == OpSle {
			half := uint64(1) << (c.A[0].W - 1)
			if a.hi >= half || b.hi >= half {
				return triUnknown
			}
			if op == OpSlt {
				op = OpUlt
			} else {
				op = OpUle
			}
		}
		if op == OpUlt {
			if a.hi < b.lo {
				return triTrue
			}
			if a.lo >= b.hi {
				return triFalse
			}
		} else {
			if a.hi <= b.lo {
				return triTrue
			}
			if a.lo > b.hi {
				return triFalse
			}
		}
	}
	return triUnknown
}

// absAssume narrows variable ranges by a fact that has entered the path condition.
func (w *W) absAssume(c *Term, truth bool) {
	switch c.Op {
	case OpNot:
		w.absAssume(c.A[0], !truth)
	case OpAnd:
		if truth {
			w.absAssume(c.A[0], true)
			w.absAssume(c.A[1], true)
		}
	case OpOr:
		if !truth {
			w.absAssume(c.A[0], false)
			w.absAssume(c.A[1], false)
		} else {
			// a || b with one side known false: the other holds
			if w.decide(c.A[0]) == triFalse {
				w.absAssume(c.A[1], true)
			} else if w.decide(c.A[1]) == triFalse {
				w.absAssume(c.A[0], true)
			}
		}
	case OpEq:
		a, b := c.A[0], c.A[1]
		if a.W == 0 {
			return
		}
		ra, rb := w.rangeOf(a), w.rangeOf(b)
		if truth {
			lo, hi := max(ra.lo, rb.lo), min(ra.hi, rb.hi)
			if lo <= hi {
				w.narrow(a, lo, hi)
				w.narrow(b, lo, hi)
			}
		} else {
			if rb.lo == rb.hi {
				w.exclude(a, ra, rb.lo)
			}
			if ra.lo == ra.hi {
				w.exclude(b, rb, ra.lo)
			}
		}
	case OpUlt, OpUle, OpSlt, OpSle:
		a, b := c.A[0], c.A[1]
		ra, rb := w.rangeOf(a), w.rangeOf(b)
		op := c.Op
		if op == OpSlt || op == OpSle {
			half := uint64(1) << (a.W - 1)
			// c <s x (true) with c >= 0 makes x a non-negative number above c
			if truth && ra.hi < half && rb.hi >= half {
				if op == OpSlt && ra.lo+1 < half {
					w.narrow(b, ra.lo+1, half-1)
				} else if op == OpSle {
					w.narrow(b, ra.lo, half-1)
				}
				return
			}
			// !(x <s c) i.e. x >=s c with c >= 0
			if !truth && rb.hi < half && ra.hi >= half {
				if op == OpSlt {
					w.narrow(a, rb.lo, half-1)
				} else if rb.lo+1 < half {
					w.narrow(a, rb.lo+1, half-1)
				}
				return
			}
			if ra.hi >= half || rb.hi >= half {
				return
			}
			if op == OpSlt {
				op = OpUlt
			} else {
				op = OpUle
			}
		}
		strict := op == OpUlt
		if !truth {
			// !(a < b) = b <= a ; !(a <= b) = b < a
			a, b, ra, rb = b, a, rb, ra
			strict = !strict
		}
		// now: a < b (strict) or a <= b
		if strict {
			if rb.hi > 0 {
				w.narrow(a, ra.lo, min(ra.hi, rb.hi-1))
			}
			if ra.lo < ^uint64(0) {
				w.narrow(b, max(rb.lo, ra.lo+1), rb.hi)
			}
		} else {
			w.narrow(a, ra.lo, min(ra.hi, rb.hi))
			w.narrow(b, max(rb.lo, ra.lo), rb.hi)
		}
	}
}

func (w *W) exclude(t *Term, r rng, v uint64) {
	if r.lo == r.hi {
		return
	}
	if v == r.lo {
		w.narrow(t, r.lo+1, r.hi)
	} else if v == r.hi {
		w.narrow(t, r.lo, r.hi-1)
	}
}

// narrow records that t lies in [lo,hi], pushing the bound down to variables.
func (w *W) narrow(t *Term, lo, hi uint64) {
	if lo > hi {
		return
	}
	cur := w.rangeOf(t)
	nlo, nhi := max(cur.lo, lo), min(cur.hi, hi)
	if nlo > nhi || (nlo == cur.lo && nhi == cur.hi) {
		return
	}
	m := mask(t.W)
	switch t.Op {
	case OpVar:
		w.vb[t.ID] = rng{nlo, nhi}
		w.absInvalidate()
	case OpZext:
		x := t.A[0]
		w.narrow(x, nlo, min(nhi, mask(x.W)))
	case OpSext:
		x := t.A[0]
		if nhi < uint64(1)<<(x.W-1) {
			w.narrow(x, nlo, nhi)
		}
	case OpAdd:
		if t.A[1].Op == OpConst {
			// t = x + k (mod 2^w) is a bijection: x = t - k
			k := t.A[1].Val
			x := t.A[0]
			if nlo >= k {
				w.narrow(x, nlo-k, nhi-k)
			} else if nhi < k {
				nk := (-k) & m
				if s := nhi + nk; s >= nhi && s <= m {
					w.narrow(x, nlo+nk, s)
				}
			}
		}
	}
}
