package main

import (
	"fmt"
	"go/types"
	"strings"

	"golang.org/x/tools/go/ssa"
)

// Value is one of:
//   *Term      integers (bit-vectors of the Go type's width) and booleans
//   Str        strings
//   Ptr        pointers (object, path)
//   Slice      slices (concrete offset/len/cap)
//   *MapObj    maps (concrete keys)
//   Iface      interface values
//   Struct     struct values
//   Array      array values
//   Tuple      multiple results
//   *Closure   function values
//   Native     opaque native Go values (netip.Addr, *idna.Profile, idna.Option, float)
//   *ssa.Builtin
type Value interface{}

type Struct []Value
type Array []Value
type Tuple []Value

type Native struct{ V any }

type Closure struct {
	Fn  *ssa.Function
	Env []Value
}

type Iface struct {
	T types.Type // nil for the nil interface
	V Value
}

// Obj is a heap or stack object with identity.
type Obj struct {
	ID     int
	V      Value
	Typ    types.Type
	Init   bool // allocated while running package initialisers
	Frozen bool // published configuration: later stores are violations (C07/C12)
	Site   string
	Tag    string // harness-assigned provenance label (zzTag)
}

type Ptr struct {
	O    *Obj
	Path []int32
	Sym  *Term // if non-nil: additional symbolic last index (64-bit), bound checked at creation
	N    int   // number of elements addressable by Sym
}

func (p Ptr) IsNil() bool { return p.O == nil }

func (p Ptr) Key() string {
	if p.O == nil {
		return "nil"
	}
	var sb strings.Builder
	fmt.Fprintf(&sb, "o%d", p.O.ID)
	for _, i := range p.Path {
		fmt.Fprintf(&sb, ".%d", i)
	}
	return sb.String()
}

func samePath(a, b []int32) bool {
	if len(a) != len(b) {
		return false
	}
	for i := range a {
		if a[i] != b[i] {
			return false
		}
	}
	return true
}

func (p Ptr) extend(i int32) Ptr {
	np := make([]int32, len(p.Path)+1)
	copy(np, p.Path)
	np[len(p.Path)] = i
	return Ptr{O: p.O, Path: np}
}

type Slice struct {
	O    *Obj
	Path []int32 // path of the backing array inside O.V
	Off  int
	Len  int
	Cap  int
}

func (s Slice) IsNil() bool { return s.O == nil }

type MapObj struct {
	ID    int
	Keys  []string // insertion order (deterministic iteration)
	M     map[string]mapEntry
	Typ   *types.Map
	Init  bool
	Frozen bool
}

type mapEntry struct {
	K Value
	V Value
}

// StrBase is the backing store of a string: either a concrete Go string or a
// vector of byte terms created lazily (one 8-bit variable per position).
type StrBase struct {
	ID    int
	Sym   bool
	Conc  string
	Bytes []*Term // Sym only; nil entries are created on demand
	Max   int     // Sym only: number of positions
	Name  string
	Tag   string
}

type Str struct {
	B   *StrBase
	Off *Term // 64-bit
	Len *Term // 64-bit
}

// mapIter is the state of a Range over a map or string.
type mapIter struct {
	m    *MapObj
	keys []string
	pos  int
	str  string
	isStr bool
}

func copyVal(v Value) Value {
	switch x := v.(type) {
	case Struct:
		n := make(Struct, len(x))
		for i, e := range x {
			n[i] = copyVal(e)
		}
		return n
	case Array:
		n := make(Array, len(x))
		for i, e := range x {
			n[i] = copyVal(e)
		}
		return n
	case Tuple:
		n := make(Tuple, len(x))
		for i, e := range x {
			n[i] = copyVal(e)
		}
		return n
	}
	return v
}

type unsupported struct{ msg string }

func unsupp(format string, a ...any) {
	panic(unsupported{fmt.Sprintf(format, a...)})
}

// ------------------------------------------------------------------ types

func intKind(t types.Type) (w uint8, signed bool, ok bool) {
	b, isB := t.Underlying().(*types.Basic)
	if !isB {
		return 0, false, false
	}
	switch b.Kind() {
	case types.Bool, types.UntypedBool:
		return 0, false, true
	case types.Int, types.Int64, types.UntypedInt:
		return 64, true, true
	case types.Int32, types.UntypedRune:
		return 32, true, true
	case types.Int16:
		return 16, true, true
	case types.Int8:
		return 8, true, true
	case types.Uint, types.Uint64, types.Uintptr:
		return 64, false, true
	case types.Uint32:
		return 32, false, true
	case types.Uint16:
		return 16, false, true
	case types.Uint8:
		return 8, false, true
	}
	return 0, false, false
}

func isString(t types.Type) bool {
	b, ok := t.Underlying().(*types.Basic)
	return ok && b.Info()&types.IsString != 0
}

func (w *W) zero(t types.Type) Value {
	switch u := t.Underlying().(type) {
	case *types.Basic:
		if wd, _, ok := intKind(u); ok {
			if wd == 0 {
				return w.ts.ff
			}
			return w.ts.BV(wd, 0)
		}
		if u.Info()&types.IsString != 0 {
			return w.strConst("")
		}
		if u.Kind() == types.UnsafePointer {
			return Ptr{}
		}
		if u.Info()&types.IsFloat != 0 {
			return Native{float64(0)}
		}
		if u.Info()&types.IsComplex != 0 {
			return Native{complex128(0)}
		}
		if u.Kind() == types.UntypedNil {
			return Iface{}
		}
		unsupp("zero value of basic type %s", t)
	case *types.Pointer:
		return Ptr{}
	case *types.Slice:
		return Slice{}
	case *types.Map:
		return (*MapObj)(nil)
	case *types.Chan:
		return Native{nil}
	case *types.Signature:
		return (*Closure)(nil)
	case *types.Interface:
		return Iface{}
	case *types.Struct:
		s := make(Struct, u.NumFields())
		for i := range s {
			s[i] = w.zero(u.Field(i).Type())
		}
		return s
	case *types.Array:
		n := int(u.Len())
		if n > 1<<16 {
			unsupp("array too large: %s", t)
		}
		a := make(Array, n)
		if n > 0 {
			z := w.zero(u.Elem())
			switch z.(type) {
			case Struct, Array:
				for i := range a {
					a[i] = w.zero(u.Elem())
				}
			default:
				for i := range a {
					a[i] = z
				}
			}
		}
		return a
	case *types.Tuple:
		tu := make(Tuple, u.Len())
		for i := range tu {
			tu[i] = w.zero(u.At(i).Type())
		}
		return tu
	}
	unsupp("zero value of type %s (%T)", t, t.Underlying())
	return nil
}

func typeKeyString(t types.Type) string { return types.TypeString(t, nil) }
