package main

// One live SMT solver process per worker, SMT-LIB2 text over a pipe.
// No set-logic (z3 4.8.12 silently drops what it cannot parse under a
// restrictive logic); any "(error" line makes the query inconclusive.

import (
	"bufio"
	"fmt"
	"io"
	"os/exec"
	"regexp"
	"strconv"
	"strings"
	"time"
)

type Result int

const (
	Unsat Result = iota
	Sat
	Unknown
)

func (r Result) String() string { return [...]string{"unsat", "sat", "unknown"}[r] }

type Solver struct {
	name    string
	cmd     *exec.Cmd
	in      io.WriteCloser
	out     *bufio.Reader
	defined map[int32]bool // terms defined in the current scope
	declared map[string]bool
	buf     strings.Builder
	Queries int
	Time    time.Duration
	Errors  int
	dead    bool
	log     io.Writer
}

func solverArgv(kind string, timeoutMs int) []string {
	switch kind {
	case "z3-new":
		return []string{"z3-new", "-in", "-smt2", fmt.Sprintf("-t:%d", timeoutMs)}
	case "z3":
		return []string{"z3", "-in", "-smt2", fmt.Sprintf("-t:%d", timeoutMs)}
	case "cvc5":
		return []string{"cvc5", "--incremental", "--lang=smt2", "--produce-models", fmt.Sprintf("--tlimit-per=%d", timeoutMs)}
	}
	panic("unknown solver " + kind)
}

func NewSolver(kind string, timeoutMs int) (*Solver, error) {
	argv := solverArgv(kind, timeoutMs)
	cmd := exec.Command(argv[0], argv[1:]...)
	in, err := cmd.StdinPipe()
	if err != nil {
		return nil, err
	}
	out, err := cmd.StdoutPipe()
	if err != nil {
		return nil, err
	}
	cmd.Stderr = nil
	if err := cmd.Start(); err != nil {
		return nil, err
	}
	s := &Solver{name: kind, cmd: cmd, in: in, out: bufio.NewReaderSize(out, 1<<16),
		defined: map[int32]bool{}, declared: map[string]bool{}}
	if kind == "cvc5" {
		s.raw("(set-logic QF_BV)\n")
	} else {
		s.raw("(set-option :produce-models true)\n")
	}
	return s, nil
}

func (s *Solver) Close() {
	if s == nil || s.dead {
		return
	}
	s.dead = true
	s.in.Close()
	done := make(chan struct{})
	go func() { s.cmd.Wait(); close(done) }()
	select {
	case <-done:
	case <-time.After(2 * time.Second):
		s.cmd.Process.Kill()
	}
}

func (s *Solver) raw(txt string) {
	if s.log != nil {
		io.WriteString(s.log, txt)
	}
	s.buf.WriteString(txt)
}

func (s *Solver) flush() error {
	_, err := io.WriteString(s.in, s.buf.String())
	s.buf.Reset()
	return err
}

// Push opens a fresh scope; all definitions and assertions until Pop live in it.
func (s *Solver) Push() {
	s.raw("(push 1)\n")
}

func (s *Solver) Pop() {
	s.raw("(pop 1)\n")
	clear(s.defined)
	clear(s.declared)
}

// define makes sure t can be referred to by ref(t) in the current scope.
func (s *Solver) define(t *Term) {
	switch t.Op {
	case OpConst:
		return
	case OpVar:
		if !s.declared[t.Name] {
			s.declared[t.Name] = true
			s.raw("(declare-const " + t.Name + " " + sortStr(t.W) + ")\n")
		}
		return
	}
	if s.defined[t.ID] {
		return
	}
	for _, a := range t.A {
		if a != nil {
			s.define(a)
		}
	}
	s.defined[t.ID] = true
	s.raw("(define-fun " + ref(t) + " () " + sortStr(t.W) + " " + body(t) + ")\n")
}

func (s *Solver) Assert(t *Term) {
	s.define(t)
	s.raw("(assert " + ref(t) + ")\n")
}

const marker = "##done##"

// roundTrip flushes pending text followed by an echo marker and returns the
// output lines received before the marker.
func (s *Solver) roundTrip() ([]string, error) {
	s.raw("(echo \"" + marker + "\")\n")
	if err := s.flush(); err != nil {
		return nil, err
	}
	var lines []string
	for {
		line, err := s.out.ReadString('\n')
		if err != nil {
			return lines, fmt.Errorf("solver %s died: %v", s.name, err)
		}
		line = strings.TrimRight(line, "\r\n")
		if strings.Contains(line, marker) {
			return lines, nil
		}
		lines = append(lines, line)
	}
}

// Check asks whether the asserted context together with the given literals
// (each a Bool term) is satisfiable.
func (s *Solver) Check(lits ...*Term) Result {
	start := time.Now()
	defer func() { s.Time += time.Since(start); s.Queries++ }()
	if s.dead {
		return Unknown
	}
	var names []string
	for _, l := range lits {
		if l.IsTrue() {
			continue
		}
		if l.IsFalse() {
			return Unsat
		}
		if l.Op == OpNot {
			s.define(l.A[0])
			names = append(names, "(not "+ref(l.A[0])+")")
			continue
		}
		s.define(l)
		names = append(names, ref(l))
	}
	if len(names) == 0 {
		s.raw("(check-sat)\n")
	} else {
		s.raw("(check-sat-assuming (" + strings.Join(names, " ") + "))\n")
	}
	lines, err := s.roundTrip()
	if err != nil {
		s.dead = true
		s.Errors++
		return Unknown
	}
	res := Unknown
	got := false
	for _, l := range lines {
		switch strings.TrimSpace(l) {
		case "sat":
			res, got = Sat, true
		case "unsat":
			res, got = Unsat, true
		case "unknown", "timeout":
			res, got = Unknown, true
		default:
			if strings.Contains(l, "error") {
				s.Errors++
				return Unknown
			}
		}
	}
	if !got {
		s.Errors++
		return Unknown
	}
	return res
}

var valRe = regexp.MustCompile(`\(\s*([^\s()]+)\s+(#x[0-9a-fA-F]+|#b[01]+|true|false|\(_ bv(\d+) (\d+)\))\s*\)`)

// Values returns the model values of the given variables after a Sat answer.
func (s *Solver) Values(vars []*Term) (map[string]uint64, error) {
	res := map[string]uint64{}
	if len(vars) == 0 {
		return res, nil
	}
	const chunk = 200
	for i := 0; i < len(vars); i += chunk {
		j := min(i+chunk, len(vars))
		var sb strings.Builder
		sb.WriteString("(get-value (")
		for _, v := range vars[i:j] {
			s.define(v)
			sb.WriteString(ref(v))
			sb.WriteString(" ")
		}
		sb.WriteString("))\n")
		s.raw(sb.String())
		lines, err := s.roundTrip()
		if err != nil {
			s.dead = true
			return nil, err
		}
		txt := strings.Join(lines, " ")
		if strings.Contains(txt, "(error") {
			return nil, fmt.Errorf("get-value: %s", txt)
		}
		for _, m := range valRe.FindAllStringSubmatch(txt, -1) {
			name, v := m[1], m[2]
			var x uint64
			switch {
			case v == "true":
				x = 1
			case v == "false":
				x = 0
			case strings.HasPrefix(v, "#x"):
				x, _ = strconv.ParseUint(v[2:], 16, 64)
			case strings.HasPrefix(v, "#b"):
				x, _ = strconv.ParseUint(v[2:], 2, 64)
			default:
				x, _ = strconv.ParseUint(m[3], 10, 64)
			}
			res[name] = x
		}
	}
	return res, nil
}
