package main

// Guarded execution of acyclic, side-effect-free CFG regions (if-conversion):
// instead of forking at a symbolic branch, the blocks dominated by the branch
// are executed under guards and phis become ite terms. Exits from the region
// that lead to different blocks are forked on; exits to the same block are
// merged. Calls inside a region are allowed to "simple pure" callees, which
// are executed the same way with their return values merged.

import (
	"go/token"
	"go/types"

	"golang.org/x/tools/go/ssa"
)

type mergeAbort struct{ why string }

type edge struct {
	from *ssa.BasicBlock
	g    *Term
}

type regionInfo struct {
	order []*ssa.BasicBlock // topological order, nil if no region
	in    map[*ssa.BasicBlock]bool
}

type fnMergeInfo struct {
	regions map[int]*regionInfo
	spec    map[int]int8 // block index -> 1 speculatable, -1 not
}

func (w *W) mergeInfo(fn *ssa.Function) *fnMergeInfo {
	mi, ok := w.minfo[fn]
	if !ok {
		mi = &fnMergeInfo{regions: map[int]*regionInfo{}, spec: map[int]int8{}}
		w.minfo[fn] = mi
	}
	return mi
}

func (w *W) specInstr(in ssa.Instruction, allowReturn bool) bool {
	switch x := in.(type) {
	case *ssa.DebugRef, *ssa.Phi, *ssa.ChangeType, *ssa.ChangeInterface, *ssa.Extract,
		*ssa.Field, *ssa.FieldAddr, *ssa.IndexAddr, *ssa.Index, *ssa.If, *ssa.Jump:
		return true
	case *ssa.Return:
		return allowReturn
	case *ssa.BinOp:
		if x.Op == token.ADD && isString(x.X.Type()) {
			return false
		}
		if x.Op == token.QUO || x.Op == token.REM {
			c, ok := x.Y.(*ssa.Const)
			if !ok || c.Value == nil || c.Value.String() == "0" {
				return false
			}
		}
		if _, isIface := x.X.Type().Underlying().(*types.Interface); isIface {
			return false
		}
		return true
	case *ssa.UnOp:
		return x.Op != token.ARROW
	case *ssa.Convert:
		_, _, ok1 := intKind(x.X.Type())
		_, _, ok2 := intKind(x.Type())
		return ok1 && ok2
	case *ssa.Lookup:
		return true
	case *ssa.Slice:
		return isString(x.X.Type())
	case *ssa.Call:
		if x.Call.IsInvoke() {
			return false
		}
		switch f := x.Call.Value.(type) {
		case *ssa.Builtin:
			switch f.Name() {
			case "len", "cap":
				return true
			case "min", "max":
				_, _, ok := intKind(x.Type())
				return ok
			}
			return false
		case *ssa.Function:
			return w.simplePure(f)
		}
		return false
	}
	return false
}

// simplePure: acyclic CFG consisting only of speculatable instructions.
func (w *W) simplePure(fn *ssa.Function) bool {
	if v, ok := w.pure[fn]; ok {
		return v > 0
	}
	w.pure[fn] = -1 // in progress / recursion
	ok := w.simplePure0(fn)
	if ok {
		w.pure[fn] = 1
	}
	return ok
}

func (w *W) simplePure0(fn *ssa.Function) bool {
	if fn.Blocks == nil || fn.Recover != nil || w.intrinsicFor(fn) != nil {
		return false
	}
	if len(fn.Blocks) > 64 {
		return false
	}
	for _, b := range fn.Blocks {
		for _, in := range b.Instrs {
			if !w.specInstr(in, true) {
				return false
			}
		}
		// acyclic: go/ssa numbers blocks so that we cannot rely on order; check via DFS below
	}
	if topoOrder(fn.Blocks, func(*ssa.BasicBlock) bool { return true }) == nil {
		return false
	}
	return true
}

// topoOrder returns the blocks satisfying keep in a topological order of the
// subgraph they induce, or nil if that subgraph has a cycle.
func topoOrder(blocks []*ssa.BasicBlock, keep func(*ssa.BasicBlock) bool) []*ssa.BasicBlock {
	indeg := map[*ssa.BasicBlock]int{}
	var nodes []*ssa.BasicBlock
	for _, b := range blocks {
		if keep(b) {
			nodes = append(nodes, b)
			indeg[b] = 0
		}
	}
	for _, b := range nodes {
		for _, s := range b.Succs {
			if _, ok := indeg[s]; ok {
				indeg[s]++
			}
		}
	}
	var order, ready []*ssa.BasicBlock
	for _, b := range nodes {
		if indeg[b] == 0 {
			ready = append(ready, b)
		}
	}
	for len(ready) > 0 {
		b := ready[0]
		ready = ready[1:]
		order = append(order, b)
		for _, s := range b.Succs {
			if _, ok := indeg[s]; ok {
				indeg[s]--
				if indeg[s] == 0 {
					ready = append(ready, s)
				}
			}
		}
	}
	if len(order) != len(nodes) {
		return nil
	}
	return order
}

func (w *W) blockSpec(mi *fnMergeInfo, b *ssa.BasicBlock) bool {
	if v, ok := mi.spec[b.Index]; ok {
		return v > 0
	}
	ok := true
	for _, in := range b.Instrs {
		if !w.specInstr(in, false) {
			ok = false
			break
		}
	}
	if ok {
		mi.spec[b.Index] = 1
	} else {
		mi.spec[b.Index] = -1
	}
	return ok
}

func (w *W) regionFor(fn *ssa.Function, b *ssa.BasicBlock) *regionInfo {
	mi := w.mergeInfo(fn)
	if r, ok := mi.regions[b.Index]; ok {
		return r
	}
	r := &regionInfo{in: map[*ssa.BasicBlock]bool{}}
	mi.regions[b.Index] = r
	// blocks strictly dominated by b, speculatable, reachable from b through such blocks
	var stack []*ssa.BasicBlock
	stack = append(stack, b.Succs...)
	for len(stack) > 0 {
		x := stack[len(stack)-1]
		stack = stack[:len(stack)-1]
		if x == b || r.in[x] || !b.Dominates(x) || !w.blockSpec(mi, x) {
			continue
		}
		r.in[x] = true
		stack = append(stack, x.Succs...)
	}
	if len(r.in) == 0 {
		return r
	}
	// a back edge to b from inside the region makes b a loop header whose body we merge: fine,
	// b is never part of the region. Cycles inside the region are not supported.
	order := topoOrder(fn.Blocks, func(x *ssa.BasicBlock) bool { return r.in[x] })
	if order == nil {
		r.in = map[*ssa.BasicBlock]bool{}
		return r
	}
	r.order = order
	return r
}

type retEdge struct {
	g *Term
	v Value
}

// runRegion executes the region blocks in order. in holds the incoming edges
// (with guards relative to the region entry). Returns the exit edges grouped
// by target (in first-seen order) and, in callee mode, the guarded results.
func (w *W) runRegion(fr *frame, order []*ssa.BasicBlock, inR map[*ssa.BasicBlock]bool,
	in map[*ssa.BasicBlock][]edge, outer *Term) (exitOrder []*ssa.BasicBlock, exits map[*ssa.BasicBlock][]edge, rets []retEdge) {
	ts := w.ts
	exits = map[*ssa.BasicBlock][]edge{}
	addEdge := func(from, to *ssa.BasicBlock, g *Term) {
		if g.IsFalse() {
			return
		}
		if inR[to] {
			in[to] = append(in[to], edge{from, g})
			return
		}
		if _, ok := exits[to]; !ok {
			exitOrder = append(exitOrder, to)
		}
		exits[to] = append(exits[to], edge{from, g})
	}
	savedGuard := w.guard
	defer func() { w.guard = savedGuard }()
	for _, x := range order {
		edges := in[x]
		g := ts.ff
		for _, e := range edges {
			g = ts.Or(g, e.g)
		}
		if g.IsFalse() {
			continue
		}
		if outer != nil {
			w.guard = ts.And(outer, g)
		} else {
			w.guard = g
		}
		w.steps += len(x.Instrs)
		w.fnCount[fr.fn] += len(x.Instrs)
		if w.steps > w.e.opts.MaxSteps {
			panic(pathEnd{endBudget, "step budget exceeded in " + fr.fn.String()})
		}
		// phis
		nphi := 0
		var vals []Value
		for _, ins := range x.Instrs {
			phi, ok := ins.(*ssa.Phi)
			if !ok {
				break
			}
			nphi++
			vals = append(vals, w.mergePhi(fr, phi, x, edges))
		}
		for i := 0; i < nphi; i++ {
			fr.regs[x.Instrs[i].(*ssa.Phi)] = vals[i]
		}
		for _, ins := range x.Instrs[nphi:] {
			switch t := ins.(type) {
			case *ssa.If:
				c := w.get(fr, t.Cond).(*Term)
				addEdge(x, x.Succs[0], ts.And(g, c))
				addEdge(x, x.Succs[1], ts.And(g, ts.Not(c)))
			case *ssa.Jump:
				addEdge(x, x.Succs[0], g)
			case *ssa.Return:
				var v Value
				switch len(t.Results) {
				case 0:
				case 1:
					v = w.get(fr, t.Results[0])
				default:
					tu := make(Tuple, len(t.Results))
					for i, r := range t.Results {
						tu[i] = w.get(fr, r)
					}
					v = tu
				}
				rets = append(rets, retEdge{g, v})
			case *ssa.Call:
				fr.regs[t] = w.callInRegion(fr, t)
			default:
				w.exec(fr, ins)
			}
		}
	}
	return
}

func (w *W) mergePhi(fr *frame, phi *ssa.Phi, x *ssa.BasicBlock, edges []edge) Value {
	var acc Value
	first := true
	for i := len(edges) - 1; i >= 0; i-- {
		e := edges[i]
		idx := -1
		for k, p := range x.Preds {
			if p == e.from {
				idx = k
				break
			}
		}
		if idx < 0 {
			panic(mergeAbort{"phi edge not found"})
		}
		v := w.get(fr, phi.Edges[idx])
		if first {
			acc, first = v, false
			continue
		}
		w.narrowMerge = true
		m, ok := w.mergeVal(e.g, v, acc)
		w.narrowMerge = false
		if !ok {
			panic(mergeAbort{"unmergeable phi"})
		}
		acc = m
	}
	return acc
}

func (w *W) callInRegion(fr *frame, c *ssa.Call) Value {
	args := make([]Value, len(c.Call.Args))
	for i, a := range c.Call.Args {
		args[i] = w.get(fr, a)
	}
	switch f := c.Call.Value.(type) {
	case *ssa.Builtin:
		return w.builtin(f, args, c.Pos(), c)
	case *ssa.Function:
		return w.callMerged(f, args)
	}
	panic(mergeAbort{"call"})
}

// callMerged runs a simple pure callee under the current guard.
func (w *W) callMerged(fn *ssa.Function, args []Value) Value {
	if w.depth > maxDepth {
		unsupp("call depth exceeded in %s", fn)
	}
	w.depth++
	defer func() { w.depth-- }()
	fr := &frame{fn: fn, regs: make(map[ssa.Value]Value, 16)}
	for i, p := range fn.Params {
		fr.regs[p] = args[i]
	}
	order := w.pureOrder[fn]
	if order == nil {
		order = topoOrder(fn.Blocks, func(*ssa.BasicBlock) bool { return true })
		// entry block first
		w.pureOrder[fn] = order
	}
	inR := w.pureIn[fn]
	if inR == nil {
		inR = map[*ssa.BasicBlock]bool{}
		for _, b := range fn.Blocks {
			inR[b] = true
		}
		w.pureIn[fn] = inR
	}
	in := map[*ssa.BasicBlock][]edge{fn.Blocks[0]: {{nil, w.ts.tt}}}
	_, _, rets := w.runRegion(fr, order, inR, in, w.guard)
	if len(rets) == 0 {
		panic(mergeAbort{"callee without return"})
	}
	acc := rets[len(rets)-1].v
	for i := len(rets) - 2; i >= 0; i-- {
		w.narrowMerge = true
		m, ok := w.mergeVal(rets[i].g, rets[i].v, acc)
		w.narrowMerge = false
		if !ok {
			panic(mergeAbort{"unmergeable results"})
		}
		acc = m
	}
	return acc
}

// tryMerge attempts guarded execution starting at the If terminating block b.
// On success the frame has been advanced to the chosen exit and true is returned.
func (w *W) tryMerge(fr *frame, b *ssa.BasicBlock, cond *Term) (done bool) {
	if (w.noMergeRoot || w.countAllocs) && fr.fn.Pkg == w.e.rootPkg {
		return false
	}
	r := w.regionFor(fr.fn, b)
	if r.order == nil {
		return false
	}
	ts := w.ts
	savedNoFork, savedGuard := w.noFork, w.guard
	aborted := false
	var exitOrder []*ssa.BasicBlock
	var exits map[*ssa.BasicBlock][]edge
	func() {
		defer func() {
			w.noFork, w.guard = savedNoFork, savedGuard
			if rec := recover(); rec != nil {
				if _, ok := rec.(mergeAbort); ok {
					aborted = true
					return
				}
				panic(rec)
			}
		}()
		w.noFork = true
		in := map[*ssa.BasicBlock][]edge{}
		pre := map[*ssa.BasicBlock][]edge{}
		seed := func(to *ssa.BasicBlock, g *Term) {
			if r.in[to] {
				in[to] = append(in[to], edge{b, g})
			} else {
				pre[to] = append(pre[to], edge{b, g})
			}
		}
		seed(b.Succs[0], cond)
		seed(b.Succs[1], ts.Not(cond))
		exitOrder, exits, _ = w.runRegion(fr, r.order, r.in, in, savedGuard)
		for _, s := range b.Succs {
			if es, ok := pre[s]; ok {
				if _, seen := exits[s]; !seen {
					exitOrder = append(exitOrder, s)
				}
				exits[s] = append(es, exits[s]...)
				delete(pre, s)
			}
		}
	}()
	if aborted {
		w.st.MergeAborts++
		return false
	}
	if savedGuard != nil {
		// nested speculation inside a merged callee never reaches here (callee regions
		// are handled by runRegion); defensive.
		return false
	}
	w.st.Merges++
	if len(exitOrder) == 0 {
		panic(pathEnd{endInfeasible, "region without exit"})
	}
	// one alternative per exit target (phis merged over its incoming edges), or
	// one per edge when the target's phis cannot be merged
	type alt struct {
		target *ssa.BasicBlock
		from   *ssa.BasicBlock
		g      *Term
		vals   []Value
	}
	var alts []alt
	for _, t := range exitOrder {
		es := exits[t]
		var phis []*ssa.Phi
		for _, ins := range t.Instrs {
			phi, ok := ins.(*ssa.Phi)
			if !ok {
				break
			}
			phis = append(phis, phi)
		}
		merged := true
		var vals []Value
		func() {
			defer func() {
				if rec := recover(); rec != nil {
					if _, ok := rec.(mergeAbort); ok {
						merged = false
						return
					}
					panic(rec)
				}
			}()
			for _, phi := range phis {
				vals = append(vals, w.mergePhi(fr, phi, t, es))
			}
		}()
		if merged {
			g := ts.ff
			for _, e := range es {
				g = ts.Or(g, e.g)
			}
			alts = append(alts, alt{t, es[0].from, g, vals})
			continue
		}
		for _, e := range es {
			var vs []Value
			for _, phi := range phis {
				vs = append(vs, w.mergePhi(fr, phi, t, []edge{e}))
			}
			alts = append(alts, alt{t, e.from, e.g, vs})
		}
	}
	k := 0
	if len(alts) > 1 {
		conds := make([]*Term, len(alts))
		for i, a := range alts {
			conds[i] = a.g
		}
		k = w.fork(conds, true, "region exit")
	}
	ch := alts[k]
	for i, v := range ch.vals {
		fr.regs[ch.target.Instrs[i].(*ssa.Phi)] = v
	}
	fr.prev = ch.from
	fr.block = ch.target
	fr.skipPhis = true
	return true
}
