#!/bin/bash
# Confirms a seeded defect: (1) patch applies and builds, (2) unedited suite passes with it,
# (3) demo fails with it, (4) demo passes without it.   usage: verify_seed.sh <dir>
set -u
d=$(readlink -f "$1")
export GOFLAGS=-mod=mod GOPROXY=off GOSUMDB=off GOTOOLCHAIN=local
pkg=$(grep -m1 '^package ' $d/demo_test.go | awk '{print $2}')
case "$pkg" in
  cors|cors_test) sub=. ;;
  origins|origins_test) sub=internal/origins ;;
  headers|headers_test) sub=internal/headers ;;
  methods|methods_test) sub=internal/methods ;;
  util|util_test) sub=internal/util ;;
  cfgerrors|cfgerrors_test) sub=cfgerrors ;;
  *) echo "unknown package $pkg"; exit 2 ;;
esac
wt=/tmp/vs/$(echo $d | md5sum | cut -c1-8)
rm -rf $wt; mkdir -p /tmp/vs; T=/tmp/vs/$(basename $wt).out; mkdir -p $T
for try in 1 2 3 4 5 6; do git -C /repo worktree add --detach $wt HEAD >/dev/null 2>&1 && break; sleep $((RANDOM % 5 + 1)); done
res=""
cp $d/demo_test.go $wt/$sub/zz_demo_test.go
(cd $wt && go test -vet=off -count=1 ./$sub/ -run . >$T/out0.txt 2>&1); r0=$?
# run only demo tests without patch
names=$(grep -oE '^func (Test[A-Za-z0-9_]*)' $d/demo_test.go | awk '{print $2}' | paste -sd'|')
(cd $wt && go test -vet=off -count=1 ./$sub/ -run "^($names)\$" >$T/out_nopatch.txt 2>&1); a=$?
git -C $wt apply $d/patch.diff || { echo "PATCH DOES NOT APPLY"; git -C /repo worktree remove --force $wt; exit 2; }
(cd $wt && go test -vet=off -count=1 ./$sub/ -run "^($names)\$" >$T/out_patch.txt 2>&1); b=$?
rm $wt/$sub/zz_demo_test.go
(cd $wt && go build ./... && go test -vet=off -count=1 ./... >$T/out_suite.txt 2>&1); c=$?
echo "SEED $d pkg=$pkg demo_without_patch_exit=$a demo_with_patch_exit=$b suite_with_patch_exit=$c  => $([ $a = 0 ] && [ $b != 0 ] && [ $c = 0 ] && echo CONFIRMED || echo REJECTED)"
[ $b != 0 ] && grep -E -- '--- FAIL|panic' $T/out_patch.txt | head -3
[ $c != 0 ] && tail -5 $T/out_suite.txt
[ $a != 0 ] && tail -5 $T/out_nopatch.txt
git -C /repo worktree remove --force $wt
