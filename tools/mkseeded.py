#!/usr/bin/env python3
"""Copies the confirmed seeded defects from the sub-agents' scratch output (/tmp/mut/<id>/out/m<k>)
into /verif/seeded/<id>-m<k>/ and writes meta.json from the table below.

The table is maintained by hand from the runs recorded in DESIGN.md section 10: `caught_by`
lists the registered checks (quick tier unless stated) that print a VIOLATION line with the
patch applied; `first_missed` says whether the check as it stood before the seed was tried
missed it and what was strengthened."""
import json, os, shutil, subprocess, sys

T = {
 # id-mk: (property, one-line what, needs, caught_by, strengthened)
}

def main():
    table = json.load(open('/verif/seeded/index.json'))
    for key, e in table.items():
        pid, mk = key.split('-')
        src = f'/tmp/mut/{pid}/out/{mk}'
        dst = f'/verif/seeded/{key}'
        os.makedirs(dst, exist_ok=True)
        if os.path.isdir(src):
            for f in ('patch.diff', 'demo_test.go', 'notes.md'):
                if os.path.exists(f'{src}/{f}'):
                    shutil.copy(f'{src}/{f}', f'{dst}/{f}')
        meta = {
            'property': e['property'],
            'breaks': e['what'],
            'needs_to_manifest': e['needs'],
            'demo': {'file': 'demo_test.go', 'package_dir': e['demo_dir'],
                     'how': 'copy to <package_dir>/zz_demo_test.go in a scratch worktree of /repo; `go test -vet=off -count=1 -run <TestName> ./<package_dir>/` passes on HEAD and fails with patch.diff applied; the unedited suite (`go test -vet=off -count=1 ./...`) passes with patch.diff applied'},
            'confirmed_with': '/verif/tools/verify_seed.sh <this dir> (scratch worktree under /tmp/vs, removed afterwards): demo passes without the patch, fails with it, full suite passes with it',
            'caught_by': e['caught_by'],
            'detection': e.get('detection', ''),
            'check_before_seed': e.get('before', 'caught as it stood'),
            'ran': e.get('ran', '/verif/tools/mutcheck.sh <patch.diff> quick <check id> (scratch worktree with the patch applied, GOSYM_REPO pointing at it); registered commands run against /repo itself'),
        }
        json.dump(meta, open(f'{dst}/meta.json', 'w'), indent=1)
    print('wrote', len(table), 'seeds')

if __name__ == '__main__':
    main()
