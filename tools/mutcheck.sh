#!/bin/bash
# Development helper: run checks against a scratch worktree of /repo carrying a seeded defect.
# usage: mutcheck.sh <patch.diff> <tier> <id> [<id>...]       (env WORKERS=n to limit workers)
# The registered commands never use this; they run /verif against /repo itself.
set -u
patch=$(readlink -f "$1"); tier=$2; shift 2
name=$(echo "$patch" | md5sum | cut -c1-8)
wt=/tmp/mc/$name/wt; vd=/tmp/mc/$name/verif
rm -rf /tmp/mc/$name; mkdir -p /tmp/mc/$name "$vd"
for try in 1 2 3 4 5 6; do git -C /repo worktree add --detach "$wt" HEAD >/dev/null 2>&1 && break; sleep $((RANDOM % 5 + 1)); done
[ -d "$wt" ] || { echo "worktree failed"; exit 2; }
git -C "$wt" apply "$patch" || { echo "patch does not apply"; git -C /repo worktree remove --force "$wt"; exit 2; }
ln -s /verif/harness "$vd/harness"; cp /verif/known_findings.json "$vd/"
export GOFLAGS=-mod=mod GOPROXY=off GOSUMDB=off GOTOOLCHAIN=local
for id in "$@"; do
  start=$(date +%s)
  GOSYM_REPO=$wt GOSYM_VERIF=$vd /verif/bin/gosym check $id --tier $tier ${WORKERS:+--workers $WORKERS} ${ONLY:+--only $ONLY} > /tmp/mc/$name/$id.log 2>&1
  rc=$?
  echo "MUT $(basename $(dirname $patch))/$(basename $patch) $id tier=$tier exit=$rc $(( $(date +%s) - start ))s :: $(grep -E 'VIOLATION|counterexample|INCONCLUSIVE|ENGINE-DIS|^OK' /tmp/mc/$name/$id.log | head -3 | cut -c1-300 | tr '\n' '|')"
done
git -C /repo worktree remove --force "$wt"
rm -rf "$vd" 
