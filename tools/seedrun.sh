#!/bin/bash
# usage: seedrun.sh <propid> [extra check ids...]   -> verifies /tmp/mut/<id>/out/m*/ and runs the property's quick check on each
id=$1; shift
for m in /tmp/mut/$id/out/m*; do
  [ -f $m/patch.diff ] || continue
  v=$(/verif/tools/verify_seed.sh $m | head -1)
  echo "$v" >> ${RESULTS:-/tmp/mut/results.txt}
  case "$v" in *CONFIRMED*) /verif/tools/mutcheck.sh $m/patch.diff quick $id "$@" >> ${RESULTS:-/tmp/mut/results.txt} 2>&1 ;; esac
done
